/*
 * cdrive: drives the exported C function table of dnssector exactly as a C hook would, compiled
 * against the header the library ships (src/bin/c_hook/c_hook.h) and calling every entry by the
 * header's field names.  Reads a script on stdin, prints one JSON event per operation; the same
 * script is executed natively by `vdrive cscript` and TLC compares the two traces (C15).
 *
 * Every out-buffer is malloc'ed at exactly its documented size, surrounded by canary bytes, and
 * pre-filled with a pattern; the events report whether canaries and the bytes behind what was
 * legitimately written are intact.  Under valgrind the exact sizes turn any stray write into an
 * error report.
 *
 * Script language: see lib/cscript.py.
 */
#include <pthread.h>
#include <stdio.h>
#include <stdlib.h>
#include <string.h>

#include "c_hook.h"

extern const FnTable *vh_fn_table(void);
extern ParsedPacket  *vh_parse(const uint8_t *bytes, size_t len);
extern void           vh_free(ParsedPacket *pp);
extern size_t         vh_state_json(const ParsedPacket *pp, char *buf, size_t cap);

#define CANARY 16
#define FILL 0xAA
#define GUARD 0x5C

static const FnTable *T;

typedef struct {
    uint8_t *base;
    uint8_t *p;
    size_t   n;
} Buf;

static Buf buf_new(size_t n)
{
    Buf b;
    b.base = malloc(n + 2 * CANARY);
    b.p    = b.base + CANARY;
    b.n    = n;
    memset(b.base, GUARD, CANARY);
    memset(b.p, FILL, n);
    memset(b.p + n, GUARD, CANARY);
    return b;
}
static int buf_canaries_ok(const Buf *b)
{
    size_t i;
    for (i = 0; i < CANARY; i++) {
        if (b->base[i] != GUARD || b->p[b->n + i] != GUARD) {
            return 0;
        }
    }
    return 1;
}
/* bytes [from, n) still hold the fill pattern */
static int buf_tail_untouched(const Buf *b, size_t from)
{
    size_t i;
    for (i = from; i < b->n; i++) {
        if (b->p[i] != FILL) {
            return 0;
        }
    }
    return 1;
}
static void buf_free(Buf *b) { free(b->base); }

static size_t unhex(const char *s, uint8_t **out)
{
    size_t n, i;
    if (strcmp(s, "-") == 0) {
        *out = malloc(1);
        return 0;
    }
    n    = strlen(s) / 2;
    *out = malloc(n + 1);
    for (i = 0; i < n; i++) {
        unsigned v;
        sscanf(s + 2 * i, "%2x", &v);
        (*out)[i] = (uint8_t) v;
    }
    (*out)[n] = 0;
    return n;
}

static void print_bytes(const uint8_t *p, size_t n)
{
    size_t i;
    putchar('[');
    for (i = 0; i < n; i++) {
        printf(i ? ",%u" : "%u", p[i]);
    }
    putchar(']');
}
static void print_jstr(const char *s)
{
    putchar('"');
    for (; *s; s++) {
        unsigned char c = (unsigned char) *s;
        if (c == '"' || c == '\\') {
            printf("\\%c", c);
        } else if (c < 32) {
            printf("\\u%04x", c);
        } else {
            putchar(c);
        }
    }
    putchar('"');
}
static void print_state(const ParsedPacket *pp)
{
    static char *sb = NULL;
    static size_t cap = 0;
    size_t need = vh_state_json(pp, sb, cap);
    if (need > cap) {
        cap = need + 4096;
        sb  = realloc(sb, cap);
        vh_state_json(pp, sb, cap);
    }
    fputs(sb, stdout);
}
static const char *errtext(const CErr *err) { return err ? T->error_description(err) : ""; }

/* ---- iteration ---- */
typedef struct {
    char  idx[16];
    char  name[32];
    char *args[3];
} Act;
typedef struct {
    Act   *acts;
    size_t nacts;
    size_t k;
    int    edns;
    int    mem_ok;
} IterCtx;

static bool iter_cb(void *vctx, void *it)
{
    IterCtx *c    = (IterCtx *) vctx;
    bool     stop = false;
    size_t   a;
    int      first = 1;
    printf(c->k ? ",{\"k\":%zu,\"acts\":[" : "{\"k\":%zu,\"acts\":[", c->k);
    for (a = 0; !c->edns && a < c->nacts; a++) {
        Act *x = &c->acts[a];
        if (strcmp(x->idx, "*") != 0 && (size_t) atol(x->idx) != c->k) {
            continue;
        }
        if (!first) {
            putchar(',');
        }
        first = 0;
        if (strcmp(x->name, "obs") == 0) {
            Buf      nb = buf_new(DNS_MAX_HOSTNAME_LEN + 1);
            uint16_t ty, cl;
            uint32_t ttl;
            size_t   nl;
            int      ok;
            T->name(it, (char *) nb.p);
            nl = 0;
            while (nl < nb.n && nb.p[nl] != 0) {
                nl++;
            }
            ok = buf_canaries_ok(&nb) && nl <= DNS_MAX_HOSTNAME_LEN && buf_tail_untouched(&nb, nl + 1);
            ty  = T->rr_type(it);
            cl  = T->rr_class(it);
            ttl = T->rr_ttl(it);
            printf("{\"a\":\"obs\",\"name\":");
            print_bytes(nb.p, nl < nb.n ? nl : 0);
            printf(",\"type\":%u,\"class\":%u,\"ttl\":[%u,%u,%u,%u],\"ip\":", ty, cl, (ttl >> 24) & 255, (ttl >> 16) & 255,
                   (ttl >> 8) & 255, ttl & 255);
            if (ty == 1 || ty == 28) {
                size_t want = ty == 1 ? 4 : 16;
                Buf    ib   = buf_new(want);
                size_t len  = want;
                T->rr_ip(it, ib.p, &len);
                ok = ok && buf_canaries_ok(&ib) && len == want;
                print_bytes(ib.p, len <= want ? len : want);
                buf_free(&ib);
                {
                    /* a hook may also pass a larger scratch buffer: the entry must report 4 or 16 */
                    Buf    jb   = buf_new(want + 16);
                    size_t len2 = want + 16;
                    T->rr_ip(it, jb.p, &len2);
                    ok = ok && buf_canaries_ok(&jb) && buf_tail_untouched(&jb, want);
                    printf(",\"ip2len\":%zu", len2);
                    buf_free(&jb);
                }
            } else {
                printf("[],\"ip2len\":0");
            }
            printf(",\"ok\":%s}", ok ? "true" : "false");
            if (!ok) {
                c->mem_ok = 0;
            }
            buf_free(&nb);
        } else if (strcmp(x->name, "set_ttl") == 0) {
            T->set_rr_ttl(it, (uint32_t) strtoul(x->args[0], NULL, 10));
            printf("{\"a\":\"set_ttl\",\"ret\":0,\"err\":\"\"}");
        } else if (strcmp(x->name, "set_ip") == 0) {
            uint8_t *b;
            size_t   n = unhex(x->args[0], &b);
            T->set_rr_ip(it, b, n);
            free(b);
            printf("{\"a\":\"set_ip\",\"ret\":0,\"err\":\"\"}");
        } else if (strcmp(x->name, "set_raw_name") == 0) {
            uint8_t    *b;
            size_t      n   = unhex(x->args[0], &b);
            const CErr *err = NULL;
            int         r   = T->set_raw_name(it, &err, b, n);
            free(b);
            printf("{\"a\":\"set_raw_name\",\"ret\":%d,\"err\":", r);
            print_jstr(r == 0 ? "" : errtext(err));
            putchar('}');
        } else if (strcmp(x->name, "set_name") == 0) {
            uint8_t    *t, *z;
            size_t      tn  = unhex(x->args[0], &t);
            size_t      zn  = unhex(x->args[1], &z);
            const CErr *err = NULL;
            int         r   = T->set_name(it, &err, (const char *) t, tn, zn ? z : NULL, zn);
            free(t);
            free(z);
            printf("{\"a\":\"set_name\",\"ret\":%d,\"err\":", r);
            print_jstr(r == 0 ? "" : errtext(err));
            putchar('}');
        } else if (strcmp(x->name, "delete") == 0) {
            const CErr *err = NULL;
            int         r   = T->delete_rr(it, &err);
            printf("{\"a\":\"delete\",\"ret\":%d,\"err\":", r);
            print_jstr(r == 0 ? "" : errtext(err));
            putchar('}');
        } else if (strcmp(x->name, "stop") == 0) {
            stop = true;
            printf("{\"a\":\"stop\",\"ret\":0,\"err\":\"\"}");
        }
    }
    printf("]}");
    c->k++;
    return stop;
}

int main(void)
{
    static char   line[400000];
    ParsedPacket *pp = NULL;
    int           n  = 0;
    T                = vh_fn_table();
    if (T->abi_version != DNSSECTOR_ABI_VERSION) {
        /* the last field of the table: a missing or extra entry shifts it */
        printf("{\"i\":0,\"op\":\"abi\",\"ok\":false}\n#\n");
        return 0;
    }
    while (fgets(line, sizeof line, stdin)) {
        char *tok[8];
        int   nt = 0;
        char *s  = strtok(line, " \t\r\n");
        while (s && nt < 8) {
            tok[nt++] = s;
            s         = strtok(NULL, " \t\r\n");
        }
        if (nt == 0) {
            continue;
        }
        if (strcmp(tok[0], "PKT") == 0) {
            uint8_t *b;
            size_t   len = unhex(tok[1], &b);
            if (pp) {
                vh_free(pp);
            }
            pp = vh_parse(b, len);
            free(b);
            n = 0;
            printf("{\"i\":%d,\"op\":\"pkt\",\"ok\":%s}\n", n++, pp ? "true" : "false");
        } else if (strcmp(tok[0], "END") == 0) {
            if (pp) {
                vh_free(pp);
                pp = NULL;
            }
            printf("#\n");
            fflush(stdout);
        } else if (strcmp(tok[0], "OP") == 0 && pp) {
            const char *op = tok[1];
            printf("{\"i\":%d,\"op\":\"%s\",\"died\":false,", n++, op);
            if (strcmp(op, "flags") == 0) {
                uint32_t f = T->flags(pp);
                printf("\"ret\":0,\"vals\":[%u,%u],\"err\":\"\"", f & 0xffff, f >> 16);
            } else if (strcmp(op, "set_flags") == 0) {
                T->set_flags(pp, (uint32_t) strtoul(tok[2], NULL, 10));
                printf("\"ret\":0,\"vals\":[],\"err\":\"\"");
            } else if (strcmp(op, "rcode") == 0) {
                printf("\"ret\":0,\"vals\":[%u],\"err\":\"\"", T->rcode(pp));
            } else if (strcmp(op, "set_rcode") == 0) {
                T->set_rcode(pp, (uint8_t) atoi(tok[2]));
                printf("\"ret\":0,\"vals\":[],\"err\":\"\"");
            } else if (strcmp(op, "opcode") == 0) {
                printf("\"ret\":0,\"vals\":[%u],\"err\":\"\"", T->opcode(pp));
            } else if (strcmp(op, "set_opcode") == 0) {
                T->set_opcode(pp, (uint8_t) atoi(tok[2]));
                printf("\"ret\":0,\"vals\":[],\"err\":\"\"");
            } else if (strcmp(op, "question") == 0) {
                Buf      nb = buf_new(DNS_MAX_HOSTNAME_LEN + 1);
                uint16_t ty = 0xffff;
                int      r  = T->question(pp, (char *) nb.p, &ty);
                size_t   nl = 0;
                while (nl < nb.n && nb.p[nl] != 0) {
                    nl++;
                }
                printf("\"ret\":%d,\"vals\":[%u],\"name\":", r, ty);
                print_bytes(nb.p, r == 0 && nl < nb.n ? nl : 0);
                printf(",\"err\":\"\",\"mem\":%s", buf_canaries_ok(&nb) && nl < nb.n && buf_tail_untouched(&nb, nl + 1) ? "true" : "false");
                buf_free(&nb);
            } else if (strcmp(op, "raw_packet") == 0) {
                size_t cap = (size_t) strtoul(tok[2], NULL, 10);
                Buf    rb  = buf_new(cap);
                size_t len = 0;
                int    r   = T->raw_packet(pp, rb.p, &len, cap);
                printf("\"ret\":%d,\"vals\":[%zu],\"out\":", r, r == 0 ? len : (size_t) 0);
                print_bytes(rb.p, r == 0 && len <= cap ? len : 0);
                printf(",\"err\":\"\",\"mem\":%s", buf_canaries_ok(&rb) && buf_tail_untouched(&rb, r == 0 ? len : 0) ? "true" : "false");
                buf_free(&rb);
            } else if (strcmp(op, "add") == 0) {
                uint8_t    *t;
                const CErr *err = NULL;
                int         r;
                unhex(tok[3], &t);
                if (strcmp(tok[2], "Q") == 0) {
                    r = T->add_to_question(pp, &err, (const char *) t);
                } else if (strcmp(tok[2], "AN") == 0) {
                    r = T->add_to_answer(pp, &err, (const char *) t);
                } else if (strcmp(tok[2], "NS") == 0) {
                    r = T->add_to_nameservers(pp, &err, (const char *) t);
                } else {
                    r = T->add_to_additional(pp, &err, (const char *) t);
                }
                free(t);
                printf("\"ret\":%d,\"vals\":[],\"err\":", r);
                print_jstr(r == 0 ? "" : errtext(err));
            } else if (strcmp(op, "rename") == 0) {
                uint8_t    *tg, *sr;
                size_t      tn  = unhex(tok[2], &tg);
                size_t      sn  = unhex(tok[3], &sr);
                const CErr *err = NULL;
                int         r   = T->rename_with_raw_names(pp, &err, tg, tn, sr, sn, tok[4][0] == '1');
                free(tg);
                free(sr);
                printf("\"ret\":%d,\"vals\":[],\"err\":", r);
                print_jstr(r == 0 ? "" : errtext(err));
            } else if (strcmp(op, "namefromstr") == 0) {
                uint8_t    *t;
                size_t      tn  = unhex(tok[2], &t);
                Buf         ob  = buf_new(DNS_MAX_HOSTNAME_LEN + 1);
                size_t      len = 0;
                const CErr *err = NULL;
                int         r   = T->raw_name_from_str(ob.p, &len, &err, (const char *) t, tn);
                free(t);
                printf("\"ret\":%d,\"vals\":[%zu],\"out\":", r, r == 0 ? len : (size_t) 0);
                print_bytes(ob.p, r == 0 && len <= ob.n ? len : 0);
                printf(",\"err\":");
                print_jstr(r == 0 ? "" : errtext(err));
                printf(",\"mem\":%s", buf_canaries_ok(&ob) && buf_tail_untouched(&ob, r == 0 ? len : 0) ? "true" : "false");
                buf_free(&ob);
            } else if (strcmp(op, "iter") == 0) {
                IterCtx c;
                size_t  a;
                c.nacts  = (size_t) atol(tok[3]);
                c.acts   = calloc(c.nacts + 1, sizeof(Act));
                c.k      = 0;
                c.edns   = strcmp(tok[2], "EDNS") == 0;
                c.mem_ok = 1;
                {
                    char sec[8];
                    strncpy(sec, tok[2], sizeof sec - 1);
                    sec[sizeof sec - 1] = 0;
                    for (a = 0; a < c.nacts; a++) {
                        static char al[400000];
                        char       *u;
                        int         k = 0;
                        if (!fgets(al, sizeof al, stdin)) {
                            break;
                        }
                        u = strtok(al, " \t\r\n"); /* ACT */
                        u = strtok(NULL, " \t\r\n");
                        strncpy(c.acts[a].idx, u ? u : "*", sizeof c.acts[a].idx - 1);
                        u = strtok(NULL, " \t\r\n");
                        strncpy(c.acts[a].name, u ? u : "", sizeof c.acts[a].name - 1);
                        while ((u = strtok(NULL, " \t\r\n")) && k < 3) {
                            c.acts[a].args[k++] = strdup(u);
                        }
                    }
                    printf("\"recs\":[");
                    if (strcmp(sec, "AN") == 0) {
                        T->iter_answer(pp, iter_cb, &c);
                    } else if (strcmp(sec, "NS") == 0) {
                        T->iter_nameservers(pp, iter_cb, &c);
                    } else if (strcmp(sec, "AR") == 0) {
                        T->iter_additional(pp, iter_cb, &c);
                    } else {
                        T->iter_edns(pp, iter_cb, &c);
                    }
                }
                printf("],\"ret\":0,\"vals\":[%zu],\"err\":\"\",\"mem\":%s", c.k, c.mem_ok ? "true" : "false");
                for (a = 0; a < c.nacts; a++) {
                    int k;
                    for (k = 0; k < 3; k++) {
                        free(c.acts[a].args[k]);
                    }
                }
                free(c.acts);
            } else {
                printf("\"ret\":0,\"vals\":[],\"err\":\"unknown op\"");
            }
            printf(",\"state\":");
            print_state(pp);
            printf("}\n");
            fflush(stdout);
        }
    }
    return 0;
}
