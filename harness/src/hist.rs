//! Stateful executor: a history of API operations applied to one `ParsedPacket`, one ndjson event
//! per operation with the bytes before and after, every public field of the object, and whatever
//! the operation returned.  Cursor operations are logged sub-step by sub-step (bytes, view and the
//! cursor's own accessors after each).  The driver does not interpret anything.

use crate::exec::view_json;
use crate::util::*;
use dnssector::*;
use serde_json::Value;

/// The two error kinds the properties name are reported by kind, not by the wording of their message
/// (C10 "reports 'too large'", C11 "reports a void record"); every other error by its text.
fn err_text(e: &Error) -> String {
    match e.downcast_ref::<DSError>() {
        Some(DSError::VoidRecord) => "Void record".to_string(),
        Some(DSError::PacketTooLarge) => "Packet too large".to_string(),
        _ => e.to_string(),
    }
}

fn section_of(s: &str) -> Section {
    match s {
        "Q" => Section::Question,
        "AN" => Section::Answer,
        "NS" => Section::NameServers,
        _ => Section::Additional,
    }
}

/// observation of a cursor: tombstone flag, offsets and the accessors that exist for every section
fn cursor_obs<T: DNSIterable + TypedIterable>(it: &T, ttl: Option<u32>) -> String {
    if it.is_tombstone() {
        return "{\"tomb\":true,\"off\":0,\"name_end\":0,\"next\":0,\"raw\":[],\"name\":[],\"type\":0,\"class\":0,\"ttl\":[]}".to_string();
    }
    let mut raw = vec![];
    it.copy_raw_name(&mut raw);
    format!(
        "{{\"tomb\":false,\"off\":{},\"name_end\":{},\"next\":{},\"raw\":{},\"name\":{},\"type\":{},\"class\":{},\"ttl\":{}}}",
        it.offset().unwrap(),
        it.raw().name_end,
        it.offset_next(),
        jbytes(&raw),
        jbytes(&it.name()),
        it.rr_type(),
        it.rr_class(),
        match ttl {
            Some(t) => ju32(t),
            None => "[]".into(),
        }
    )
}

/// observation of a cursor over the EDNS options: offsets, option code (as "type"), option length (as "class"),
/// and the option as `raw()` / `packet()` expose it
fn edns_obs(it: &EdnsIterator) -> String {
    if it.is_tombstone() {
        return "{\"tomb\":true,\"off\":0,\"name_end\":0,\"next\":0,\"raw\":[],\"name\":[],\"type\":0,\"class\":0,\"ttl\":[]}".to_string();
    }
    let raw = it.raw();
    let off = it.offset().unwrap();
    let p = it.packet();
    let code = ((p[off] as u16) << 8) | p[off + 1] as u16;
    let len = ((p[off + 2] as u16) << 8) | p[off + 3] as u16;
    format!(
        "{{\"tomb\":false,\"off\":{},\"name_end\":{},\"next\":{},\"raw\":{},\"name\":[],\"type\":{},\"class\":{},\"ttl\":[]}}",
        raw.offset,
        raw.name_end,
        it.offset_next(),
        jbytes(&raw.packet[raw.offset..it.offset_next().min(raw.packet.len())]),
        code,
        len
    )
}

enum Cur<'a> {
    Q(QuestionIterator<'a>),
    R(ResponseIterator<'a>),
    E(EdnsIterator<'a>),
}

impl<'a> Cur<'a> {
    fn obs(&self) -> String {
        match self {
            Cur::Q(i) => cursor_obs(i, None),
            Cur::R(i) => {
                let ttl = if i.is_tombstone() { None } else { Some(i.rr_ttl()) };
                cursor_obs(i, ttl)
            }
            Cur::E(i) => edns_obs(i),
        }
    }
    fn pp(&self) -> &ParsedPacket {
        match self {
            Cur::Q(i) => i.parsed_packet(),
            Cur::R(i) => i.parsed_packet(),
            Cur::E(i) => i.parsed_packet(),
        }
    }
}

fn res_of(r: Result<(), Error>) -> (String, String) {
    match r {
        Ok(()) => ("ok".into(), String::new()),
        Err(e) => ("err".into(), err_text(&e)),
    }
}

/// Runs one cursor script.  Returns (json fragment, panicked).
fn cursor_script(pp: &mut ParsedPacket, o: &Value) -> (String, bool) {
    let sec = o["sec"].as_str().unwrap_or("AN").to_string();
    let incl = o["incl"].as_bool().unwrap_or(false);
    let adv = vusize(&o["adv"]);
    let subs: Vec<Value> = o["subs"].as_array().cloned().unwrap_or_default();
    let mut out = String::new();
    let mut panicked = false;
    // the whole script runs under one guard: the cursor borrows the packet mutably
    let mut log: Vec<String> = vec![];
    let none_obs = "{\"tomb\":true,\"off\":0,\"name_end\":0,\"next\":0,\"raw\":[],\"name\":[],\"type\":0,\"class\":0,\"ttl\":[]}";
    let mut first = String::from(none_obs);
    let mut has_first = false;
    let r = guarded(|| {
        let start: Option<Cur> = match sec.as_str() {
            "Q" => pp.into_iter_question().map(Cur::Q),
            "AN" => pp.into_iter_answer().map(Cur::R),
            "NS" => pp.into_iter_nameservers().map(Cur::R),
            "E" => pp.into_iter_edns().map(Cur::E),
            _ => {
                if incl {
                    pp.into_iter_additional_including_opt().map(Cur::R)
                } else {
                    pp.into_iter_additional().map(Cur::R)
                }
            }
        };
        let mut cur = start;
        for _ in 0..adv {
            cur = match cur {
                Some(Cur::Q(i)) => i.next().map(Cur::Q),
                Some(Cur::R(i)) => (if incl { i.next_including_opt() } else { i.next() }).map(Cur::R),
                Some(Cur::E(i)) => i.next().map(Cur::E),
                None => None,
            };
        }
        let mut cur = match cur {
            None => return,
            Some(c) => c,
        };
        first = cur.obs();
        has_first = true;
        for s in subs.iter() {
            let name = s["s"].as_str().unwrap_or("");
            let arg = vbytes(&s["arg"]);
            let (res, e): (String, String) = match name {
                "set_raw_name" => match &mut cur {
                    Cur::Q(i) => res_of(i.set_raw_name(&arg)),
                    Cur::R(i) => res_of(i.set_raw_name(&arg)),
                    Cur::E(_) => ("na".into(), String::new()),
                },
                "delete" => match &mut cur {
                    Cur::Q(i) => res_of(i.delete()),
                    Cur::R(i) => res_of(i.delete()),
                    Cur::E(_) => ("na".into(), String::new()),
                },
                "uncompress" => match &mut cur {
                    Cur::Q(i) => res_of(i.uncompress()),
                    Cur::R(i) => res_of(i.uncompress()),
                    Cur::E(i) => res_of(i.uncompress()),
                },
                "set_ttl" => match &mut cur {
                    Cur::Q(_) | Cur::E(_) => ("na".into(), String::new()),
                    Cur::R(i) => {
                        if i.is_tombstone() {
                            ("na".into(), String::new())
                        } else {
                            let t = u32::from_be_bytes([arg[0], arg[1], arg[2], arg[3]]);
                            i.set_rr_ttl(t);
                            ("ok".into(), String::new())
                        }
                    }
                },
                "set_ip" => match &mut cur {
                    Cur::Q(_) | Cur::E(_) => ("na".into(), String::new()),
                    Cur::R(i) => {
                        if i.is_tombstone() {
                            ("na".into(), String::new())
                        } else {
                            let ip: std::net::IpAddr = if arg.len() == 4 {
                                std::net::IpAddr::from([arg[0], arg[1], arg[2], arg[3]])
                            } else {
                                let mut a = [0u8; 16];
                                a.copy_from_slice(&arg[..16]);
                                std::net::IpAddr::from(a)
                            };
                            res_of(i.set_rr_ip(&ip))
                        }
                    }
                },
                "next" => {
                    // advancing consumes the cursor; `end` when the section is exhausted
                    let nxt = match cur {
                        Cur::Q(i) => i.next().map(Cur::Q),
                        Cur::R(i) => (if incl { i.next_including_opt() } else { i.next() }).map(Cur::R),
                        Cur::E(i) => i.next().map(Cur::E),
                    };
                    match nxt {
                        Some(c) => {
                            cur = c;
                            ("ok".into(), String::new())
                        }
                        None => {
                            log.push(format!("{{\"s\":\"next\",\"arg\":[],\"res\":\"end\",\"e\":\"\",\"bytes\":[],\"view\":{{}},\"obs\":{{}}}}"));
                            return;
                        }
                    }
                }
                _ => ("na".into(), String::new()),
            };
            log.push(format!(
                "{{\"s\":{},\"arg\":{},\"res\":\"{}\",\"e\":{},\"bytes\":{},\"view\":{},\"obs\":{}}}",
                jstr(name),
                jbytes(&arg),
                res,
                jstr(&e),
                jbytes(cur.pp().packet()),
                view_json(cur.pp()),
                cur.obs()
            ));
        }
    });
    if r.is_err() {
        panicked = true;
    }
    out += &format!(
        "\"has_first\":{},\"first\":{},\"subs\":[{}],\"completed\":{}",
        has_first,
        first,
        log.join(","),
        subs_completed(&log, &subs, panicked)
    );
    (out, panicked)
}

fn subs_completed(log: &[String], subs: &[Value], panicked: bool) -> bool {
    !panicked && (log.len() == subs.len() || log.last().map(|l| l.contains("\"res\":\"end\"")).unwrap_or(false) || log.is_empty())
}

fn opt_q(x: Option<(Vec<u8>, u16, u16)>) -> String {
    match x {
        None => "[]".into(),
        Some((n, t, c)) => format!("[{{\"n\":{},\"t\":{},\"c\":{}}}]", jbytes(&n), t, c),
    }
}

/// One history: returns the event lines (one per operation).
pub fn run_history(v: &Value, hid: u64) -> Vec<String> {
    let mut lines = vec![];
    let mut pp = if v["synth"].is_string() {
        // synthesised packet: ParsedPacket::empty() (+ question through synth::gen::query)
        let r = guarded(|| match v["synth"].as_str().unwrap() {
            "empty" => Ok(ParsedPacket::empty()),
            name => dnssector::synth::r#gen::query(name.as_bytes(), Type::AAAA, Class::IN),
        });
        match r {
            Ok(Ok(pp)) => pp,
            _ => {
                lines.push(format!("{{\"k\":\"step\",\"h\":{},\"i\":0,\"res\":\"panic\",\"o\":{{\"op\":\"synth\"}},\"pre\":[],\"post\":[],\"mc0\":false,\"view\":{{}},\"reparse\":\"\"}}", hid));
                return lines;
            }
        }
    } else {
        match guarded(|| DNSSector::new(vbytes(&v["pkt"])).and_then(|d| d.parse())) {
            Ok(Ok(pp)) => pp,
            _ => return lines,
        }
    };
    let ops: Vec<Value> = v["ops"].as_array().cloned().unwrap_or_default();
    for (i, o) in ops.iter().enumerate() {
        // after a panic inside the library the object may be unusable (e.g. left without its packet):
        // the step that caused it has been reported, the history ends here
        let pre = match guarded(|| pp.packet().to_vec()) {
            Ok(p) => p,
            Err(()) => break,
        };
        let mc0 = pp.maybe_compressed;
        let cached0 = pp.cached.is_some();
        let op = o["op"].as_str().unwrap_or("");
        let mut extra = String::new();
        let mut panicked = false;
        let r = guarded(|| -> (String, String) {
            match op {
                "set_tid" => {
                    pp.set_tid(vusize(&o["v"]) as u16);
                    ("ok".into(), String::new())
                }
                "set_flags" => {
                    pp.set_flags(((vusize(&o["hi"]) as u32) << 16) | vusize(&o["lo"]) as u32);
                    ("ok".into(), String::new())
                }
                "set_rcode" => {
                    pp.set_rcode(vusize(&o["v"]) as u8);
                    ("ok".into(), String::new())
                }
                "set_opcode" => {
                    pp.set_opcode(vusize(&o["v"]) as u8);
                    ("ok".into(), String::new())
                }
                "set_response" => {
                    pp.set_response(o["v"].as_bool().unwrap_or(false));
                    ("ok".into(), String::new())
                }
                "read_question" => {
                    let qq1 = pp.qtype_qclass();
                    let q = pp.question();
                    let q0 = pp.question_raw0().map(|x| (x.0.to_vec(), x.1, x.2));
                    let q1 = pp.question_raw().map(|x| (x.0.to_vec(), x.1, x.2));
                    let q2 = pp.question();
                    let qq2 = pp.qtype_qclass();
                    extra = format!(
                        ",\"got\":{{\"text\":{},\"raw0\":{},\"raw\":{},\"text2\":{},\"qq1\":{},\"qq2\":{}}}",
                        opt_q(q),
                        opt_q(q0),
                        opt_q(q1),
                        opt_q(q2),
                        match qq1 {
                            None => "[]".into(),
                            Some((a, b)) => format!("[{},{}]", a, b),
                        },
                        match qq2 {
                            None => "[]".into(),
                            Some((a, b)) => format!("[{},{}]", a, b),
                        }
                    );
                    ("ok".into(), String::new())
                }
                "recompute" => res_of(pp.recompute()),
                "insert" if o.get("raw").is_some() => {
                    // a record built with RR::new from explicit fields (any type, OPT included)
                    let w = &o["raw"];
                    let t = vbytes(&w["ttl"]);
                    let hdr = dnssector::synth::r#gen::RRHeader {
                        name: vbytes(&w["name"]),
                        ttl: u32::from_be_bytes([t[0], t[1], t[2], t[3]]),
                        class: Class::from_string(w["class"].as_str().unwrap_or("IN")).unwrap_or(Class::IN),
                        rr_type: Type::from_string(w["type"].as_str().unwrap_or("A")).unwrap_or(Type::A),
                    };
                    res_of(
                        dnssector::synth::r#gen::RR::new(hdr, &vbytes(&w["rdata"]))
                            .and_then(|rr| pp.insert_rr(section_of(o["sec"].as_str().unwrap_or("AN")), rr)),
                    )
                }
                "insert" => res_of(pp.insert_rr_from_string(section_of(o["sec"].as_str().unwrap_or("AN")), o["text"].as_str().unwrap_or(""))),
                "insert_q" => {
                    let name = vbytes(&o["name"]);
                    res_of(
                        dnssector::synth::r#gen::RR::new_question(&name, Type::AAAA, Class::IN)
                            .and_then(|rr| pp.insert_rr(Section::Question, rr)),
                    )
                }
                "rename" => res_of(pp.rename_with_raw_names(&vbytes(&o["target"]), &vbytes(&o["source"]), o["suffix"].as_bool().unwrap_or(false))),
                "cursor" => {
                    let (frag, p) = cursor_script(&mut pp, o);
                    extra = format!(",{}", frag);
                    if p {
                        panic!("cursor script panicked");
                    }
                    ("ok".into(), String::new())
                }
                _ => ("na".into(), String::new()),
            }
        });
        let (res, e) = match r {
            Ok(x) => x,
            Err(()) => {
                panicked = true;
                ("panic".to_string(), String::new())
            }
        };
        // the object may be poisoned after a panic: reading it is guarded too
        let post = guarded(|| (pp.packet().to_vec(), view_json(&pp)));
        let (postb, view) = match post {
            Ok(x) => x,
            Err(()) => (vec![], "{\"poisoned\":true}".to_string()),
        };
        // what the EDNS reader of the object yields now (C09: the EDNS data as seen through the API)
        let edns = match guarded(|| {
            let mut v = vec![];
            let mut it = pp.into_iter_edns();
            let mut n = 0;
            while let Some(i) = it {
                v.push(format!("[{},{}]", i.offset().unwrap(), i.offset_next()));
                it = i.next();
                n += 1;
                if n > 70000 {
                    break;
                }
            }
            v
        }) {
            Ok(v) => format!("{{\"res\":\"ok\",\"opts\":[{}]}}", v.join(",")),
            Err(()) => "{\"res\":\"panic\",\"opts\":[]}".to_string(),
        };
        let reparse = match guarded(|| DNSSector::new(postb.clone()).and_then(|d| d.parse()).map(|p| view_json(&p))) {
            Ok(Ok(v)) => format!("{{\"res\":\"ok\",\"view\":{}}}", v),
            Ok(Err(_)) => "{\"res\":\"err\",\"view\":{}}".to_string(),
            Err(()) => "{\"res\":\"panic\",\"view\":{}}".to_string(),
        };
        lines.push(format!(
            "{{\"k\":\"step\",\"h\":{},\"i\":{},\"pre\":{},\"mc0\":{},\"cached0\":{},\"o\":{},\"res\":\"{}\",\"e\":{}{},\"post\":{},\"view\":{},\"edns\":{},\"reparse\":{}}}",
            hid,
            i,
            jbytes(&pre),
            mc0,
            cached0,
            o,
            res,
            jstr(&e),
            extra,
            jbytes(&postb),
            view,
            edns,
            reparse
        ));
        if panicked {
            break;
        }
    }
    lines
}


/// C11: walk one section, deleting the record under the cursor iff its identity (the 4 TTL bytes
/// for records, "q" for the question) is in `del`; optionally delete twice.  One line per walk.
pub fn run_walk(v: &Value) -> Option<String> {
    let pkt = vbytes(&v["pkt"]);
    let mut pp = match guarded(|| DNSSector::new(pkt.clone()).and_then(|d| d.parse())) {
        Ok(Ok(pp)) => pp,
        _ => return None,
    };
    let sec = v["sec"].as_str().unwrap_or("AN").to_string();
    let incl = v["incl"].as_bool().unwrap_or(false);
    let twice = v["twice"].as_bool().unwrap_or(true);
    let del: Vec<Vec<u8>> = v["del"].as_array().map(|a| a.iter().map(vbytes).collect()).unwrap_or_default();
    let del_q = v["del_q"].as_bool().unwrap_or(false);
    let max_yields = vusize(&v["max_yields"]).max(8);
    // optional prelude: put the object into another state before the walk (pointer-free, cache filled)
    let mut pkt = pkt;
    if let Some(pre) = v["prelude"].as_array() {
        let r = guarded(|| {
            for p in pre {
                match p.as_str().unwrap_or("") {
                    "recompute" => {
                        let _ = pp.recompute();
                    }
                    "read_question" => {
                        let _ = pp.question_raw0().map(|x| x.1);
                    }
                    _ => {}
                }
            }
            pp.packet().to_vec()
        });
        match r {
            Ok(b) => pkt = b,
            Err(()) => return Some(format!("{{\"k\":\"walk\",\"pre\":{},\"res\":\"panic\",\"sec\":\"Q\",\"incl\":false,\"del\":[],\"del_q\":false,\"ys\":[]}}", jbytes(&pkt))),
        }
    }
    let mc0 = pp.maybe_compressed;
    let mut ys: Vec<String> = vec![];
    let mut ended = "end";
    let r = guarded(|| {
        let mut cur: Option<Cur> = match sec.as_str() {
            "Q" => pp.into_iter_question().map(Cur::Q),
            "AN" => pp.into_iter_answer().map(Cur::R),
            "NS" => pp.into_iter_nameservers().map(Cur::R),
            _ => (if incl { pp.into_iter_additional_including_opt() } else { pp.into_iter_additional() }).map(Cur::R),
        };
        while let Some(mut c) = cur {
            if ys.len() >= max_yields {
                ended = "too-many-yields";
                return;
            }
            let obs = c.obs();
            let hit = match &c {
                Cur::Q(_) => del_q,
                Cur::R(i) => del.iter().any(|d| d[..] == i.rr_ttl().to_be_bytes()[..]),
                Cur::E(_) => false,
            };
            let (mut d1, mut d2) = (("na".to_string(), String::new()), ("na".to_string(), String::new()));
            if hit {
                d1 = match &mut c {
                    Cur::Q(i) => res_of(i.delete()),
                    Cur::R(i) => res_of(i.delete()),
                    Cur::E(_) => ("na".to_string(), String::new()),
                };
                if twice {
                    d2 = match &mut c {
                        Cur::Q(i) => res_of(i.delete()),
                        Cur::R(i) => res_of(i.delete()),
                        Cur::E(_) => ("na".to_string(), String::new()),
                    };
                }
            }
            ys.push(format!(
                "{{\"obs\":{},\"hit\":{},\"d1\":\"{}\",\"d1e\":{},\"d2\":\"{}\",\"d2e\":{},\"tomb\":{},\"bytes\":{},\"view\":{}}}",
                obs,
                hit,
                d1.0,
                jstr(&d1.1),
                d2.0,
                jstr(&d2.1),
                match &c {
                    Cur::Q(i) => i.is_tombstone(),
                    Cur::R(i) => i.is_tombstone(),
                    Cur::E(i) => i.is_tombstone(),
                },
                jbytes(c.pp().packet()),
                view_json(c.pp())
            ));
            cur = match c {
                Cur::Q(i) => i.next().map(Cur::Q),
                Cur::R(i) => (if incl { i.next_including_opt() } else { i.next() }).map(Cur::R),
                Cur::E(i) => i.next().map(Cur::E),
            };
        }
    });
    let res = if r.is_err() { "panic" } else { ended };
    let post = guarded(|| (pp.packet().to_vec(), view_json(&pp)));
    let (postb, view) = match post {
        Ok(x) => x,
        Err(()) => (vec![], "{}".to_string()),
    };
    let reparse = match guarded(|| DNSSector::new(postb.clone()).and_then(|d| d.parse()).map(|p| view_json(&p))) {
        Ok(Ok(v)) => format!("{{\"res\":\"ok\",\"view\":{}}}", v),
        Ok(Err(_)) => "{\"res\":\"err\",\"view\":{}}".to_string(),
        Err(()) => "{\"res\":\"panic\",\"view\":{}}".to_string(),
    };
    Some(format!(
        "{{\"k\":\"walk\",\"pre\":{},\"mc0\":{},\"sec\":{},\"incl\":{},\"twice\":{},\"del\":{},\"del_q\":{},\"res\":\"{}\",\"ys\":[{}],\"post\":{},\"view\":{},\"reparse\":{}}}",
        jbytes(&pkt),
        mc0,
        jstr(&sec),
        incl,
        twice,
        v["del"],
        del_q,
        res,
        ys.join(","),
        jbytes(&postb),
        view,
        reparse
    ))
}
