//! Stateful executors (mutation histories, walks with deletions): filled in below.
