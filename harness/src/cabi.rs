//! C ABI support: filled in below.
