//! Support for the C driver (`cdrive.c`, compiled against the shipped `c_hook.h`): a few exported
//! helpers to obtain the function table, to create / free a `ParsedPacket`, and to dump the state
//! of the object (bytes + public fields) as JSON.  None of them interprets DNS.
//!
//! The second half is the *native* interpreter of the same script language: it performs, through
//! the Rust API, the operation each table entry stands for, and prints events in the same format,
//! so that TLC can compare the two traces event by event (C15).

use crate::exec::view_json;
use crate::util::*;
use dnssector::*;
use libc::{c_char, size_t};

#[no_mangle]
pub extern "C" fn vh_fn_table() -> *const FnTable {
    Box::leak(Box::new(dnssector::c_abi::fn_table())) as *const FnTable
}

/// # Safety
/// `bytes` must point to `len` readable bytes.
#[no_mangle]
pub unsafe extern "C" fn vh_parse(bytes: *const u8, len: size_t) -> *mut ParsedPacket {
    let v = std::slice::from_raw_parts(bytes, len).to_vec();
    match guarded(|| DNSSector::new(v).and_then(|d| d.parse())) {
        Ok(Ok(pp)) => Box::into_raw(Box::new(pp)),
        _ => std::ptr::null_mut(),
    }
}

/// # Safety
/// `pp` must come from `vh_parse`.
#[no_mangle]
pub unsafe extern "C" fn vh_free(pp: *mut ParsedPacket) {
    if !pp.is_null() {
        drop(Box::from_raw(pp));
    }
}

pub fn state_json(pp: &ParsedPacket) -> String {
    format!("{{\"bytes\":{},\"view\":{}}}", jbytes(pp.packet()), view_json(pp))
}

/// Writes `{"bytes":[..],"view":{..}}` (NUL terminated) into `buf`; returns the length needed.
/// # Safety
/// `pp` must come from `vh_parse`; `buf` must have room for `cap` bytes.
#[no_mangle]
pub unsafe extern "C" fn vh_state_json(pp: *const ParsedPacket, buf: *mut c_char, cap: size_t) -> size_t {
    let s = match guarded(|| state_json(&*pp)) {
        Ok(s) => s,
        Err(()) => "{\"bytes\":[],\"view\":{\"poisoned\":true}}".to_string(),
    };
    let b = s.as_bytes();
    if b.len() + 1 <= cap {
        std::ptr::copy_nonoverlapping(b.as_ptr(), buf as *mut u8, b.len());
        *buf.add(b.len()) = 0;
    }
    b.len() + 1
}

// ---------------------------------------------------------------------------------------------
// native interpreter of the C15 script language

fn unhex(s: &str) -> Vec<u8> {
    if s == "-" {
        return vec![];
    }
    (0..s.len() / 2).map(|i| u8::from_str_radix(&s[2 * i..2 * i + 2], 16).unwrap_or(0)).collect()
}

fn ret_err(r: Result<(), Error>) -> (i32, String) {
    match r {
        Ok(()) => (0, String::new()),
        Err(e) => (-1, e.to_string()),
    }
}

struct Act {
    idx: Option<usize>,
    name: String,
    args: Vec<String>,
}

fn native_record_actions(it: &mut ResponseIterator<'_>, k: usize, acts: &[Act]) -> (String, bool) {
    let mut out = vec![];
    let mut stop = false;
    for a in acts.iter().filter(|a| a.idx.is_none() || a.idx == Some(k)) {
        match a.name.as_str() {
            "obs" => {
                let ty = it.rr_type();
                let ip = if ty == 1 || ty == 28 {
                    match it.rr_ip() {
                        Ok(std::net::IpAddr::V4(x)) => jbytes(&x.octets()),
                        Ok(std::net::IpAddr::V6(x)) => jbytes(&x.octets()),
                        Err(_) => "[]".into(),
                    }
                } else {
                    "[]".into()
                };
                out.push(format!(
                    "{{\"a\":\"obs\",\"name\":{},\"type\":{},\"class\":{},\"ttl\":{},\"ip\":{},\"ip2len\":{},\"ok\":true}}",
                    jbytes(&it.name()),
                    ty,
                    it.rr_class(),
                    ju32(it.rr_ttl()),
                    ip,
                    if ty == 1 { 4 } else if ty == 28 { 16 } else { 0 }
                ));
            }
            "set_ttl" => {
                it.set_rr_ttl(a.args[0].parse().unwrap_or(0));
                out.push("{\"a\":\"set_ttl\",\"ret\":0,\"err\":\"\"}".to_string());
            }
            "set_ip" => {
                let b = unhex(&a.args[0]);
                let ip: std::net::IpAddr = if b.len() == 4 {
                    std::net::IpAddr::from([b[0], b[1], b[2], b[3]])
                } else {
                    let mut x = [0u8; 16];
                    x.copy_from_slice(&b[..16]);
                    std::net::IpAddr::from(x)
                };
                // the table entry has no return value: only matching families are scripted
                let _ = it.set_rr_ip(&ip);
                out.push("{\"a\":\"set_ip\",\"ret\":0,\"err\":\"\"}".to_string());
            }
            "set_raw_name" => {
                let (r, e) = ret_err(it.set_raw_name(&unhex(&a.args[0])));
                out.push(format!("{{\"a\":\"set_raw_name\",\"ret\":{},\"err\":{}}}", r, jstr(&e)));
            }
            "set_name" => {
                let text = unhex(&a.args[0]);
                let zone = unhex(&a.args[1]);
                let z = if zone.is_empty() { None } else { Some(&zone[..]) };
                let r = dnssector::synth::r#gen::raw_name_from_str(&text, z).and_then(|raw| it.set_raw_name(&raw));
                let (r, e) = ret_err(r);
                out.push(format!("{{\"a\":\"set_name\",\"ret\":{},\"err\":{}}}", r, jstr(&e)));
            }
            "delete" => {
                let (r, e) = ret_err(it.delete());
                out.push(format!("{{\"a\":\"delete\",\"ret\":{},\"err\":{}}}", r, jstr(&e)));
            }
            "stop" => {
                stop = true;
                out.push("{\"a\":\"stop\",\"ret\":0,\"err\":\"\"}".to_string());
            }
            _ => {}
        }
    }
    (format!("{{\"k\":{},\"acts\":[{}]}}", k, out.join(",")), stop)
}

/// Runs a script (lines) natively; returns the event lines.
pub fn run_script_native(lines: &[String]) -> Vec<String> {
    let mut out = vec![];
    let mut pp: Option<ParsedPacket> = None;
    let mut i = 0;
    let mut n = 0;
    while i < lines.len() {
        let t: Vec<&str> = lines[i].split_whitespace().collect();
        i += 1;
        if t.is_empty() {
            continue;
        }
        match t[0] {
            "PKT" => {
                pp = match guarded(|| DNSSector::new(unhex(t[1])).and_then(|d| d.parse())) {
                    Ok(Ok(p)) => Some(p),
                    _ => None,
                };
                out.push(format!("{{\"i\":{},\"op\":\"pkt\",\"ok\":{}}}", n, pp.is_some()));
                n += 1;
            }
            "END" => break,
            "OP" => {
                let p = match pp.as_mut() {
                    Some(p) => p,
                    None => continue,
                };
                let op = t[1];
                let mut body = String::new();
                // the acts of an iter op are consumed even if the op panics
                let mut acts: Vec<Act> = vec![];
                if op == "iter" {
                    let nacts: usize = t[3].parse().unwrap_or(0);
                    for _ in 0..nacts {
                        let a: Vec<&str> = lines[i].split_whitespace().collect();
                        i += 1;
                        acts.push(Act {
                            idx: if a[1] == "*" { None } else { a[1].parse().ok() },
                            name: a[2].to_string(),
                            args: a[3..].iter().map(|s| s.to_string()).collect(),
                        });
                    }
                }
                let r = guarded(|| match op {
                    "flags" => {
                        let f = p.flags();
                        body = format!("\"ret\":0,\"vals\":[{},{}],\"err\":\"\"", f & 0xffff, f >> 16);
                    }
                    "set_flags" => {
                        p.set_flags(t[2].parse::<u64>().unwrap_or(0) as u32);
                        body = "\"ret\":0,\"vals\":[],\"err\":\"\"".into();
                    }
                    "rcode" => body = format!("\"ret\":0,\"vals\":[{}],\"err\":\"\"", p.rcode()),
                    "set_rcode" => {
                        p.set_rcode(t[2].parse().unwrap_or(0));
                        body = "\"ret\":0,\"vals\":[],\"err\":\"\"".into();
                    }
                    "opcode" => body = format!("\"ret\":0,\"vals\":[{}],\"err\":\"\"", p.opcode()),
                    "set_opcode" => {
                        p.set_opcode(t[2].parse().unwrap_or(0));
                        body = "\"ret\":0,\"vals\":[],\"err\":\"\"".into();
                    }
                    "question" => match p.question() {
                        None => body = "\"ret\":-1,\"vals\":[0],\"name\":[],\"err\":\"\"".into(),
                        Some((name, ty, _)) => {
                            if name.len() > 255 {
                                body = format!("\"ret\":-1,\"vals\":[{}],\"name\":[],\"err\":\"\"", ty);
                            } else {
                                body = format!("\"ret\":0,\"vals\":[{}],\"name\":{},\"err\":\"\"", ty, jbytes(&name));
                            }
                        }
                    },
                    "raw_packet" => {
                        let cap: usize = t[2].parse().unwrap_or(0);
                        let b = p.packet();
                        if b.len() > cap {
                            body = "\"ret\":-1,\"vals\":[0],\"out\":[],\"err\":\"\"".into();
                        } else {
                            body = format!("\"ret\":0,\"vals\":[{}],\"out\":{},\"err\":\"\"", b.len(), jbytes(b));
                        }
                    }
                    "add" => {
                        let text = unhex(t[3]);
                        let sec = match t[2] {
                            "Q" => Section::Question,
                            "AN" => Section::Answer,
                            "NS" => Section::NameServers,
                            _ => Section::Additional,
                        };
                        let r = match std::str::from_utf8(&text) {
                            Err(_) => Err(DSError::ParseError.into()),
                            Ok(s) => p.insert_rr_from_string(sec, s),
                        };
                        let (r, e) = ret_err(r);
                        body = format!("\"ret\":{},\"vals\":[],\"err\":{}", r, jstr(&e));
                    }
                    "rename" => {
                        let (r, e) = ret_err(p.rename_with_raw_names(&unhex(t[2]), &unhex(t[3]), t[4] == "1"));
                        body = format!("\"ret\":{},\"vals\":[],\"err\":{}", r, jstr(&e));
                    }
                    "namefromstr" => match dnssector::synth::r#gen::raw_name_from_str(&unhex(t[2]), None) {
                        Ok(raw) => body = format!("\"ret\":0,\"vals\":[{}],\"out\":{},\"err\":\"\"", raw.len(), jbytes(&raw)),
                        Err(e) => body = format!("\"ret\":-1,\"vals\":[0],\"out\":[],\"err\":{}", jstr(&e.to_string())),
                    },
                    "iter" => {
                        let mut recs = vec![];
                        let mut k = 0;
                        match t[2] {
                            "EDNS" => {
                                let mut it = p.into_iter_edns();
                                while let Some(item) = it {
                                    recs.push(format!("{{\"k\":{},\"acts\":[]}}", k));
                                    k += 1;
                                    it = item.next();
                                }
                            }
                            s => {
                                let mut it = match s {
                                    "AN" => p.into_iter_answer(),
                                    "NS" => p.into_iter_nameservers(),
                                    _ => p.into_iter_additional(),
                                };
                                while let Some(mut item) = it {
                                    let (j, stop) = native_record_actions(&mut item, k, &acts);
                                    recs.push(j);
                                    k += 1;
                                    if stop || k > 70000 {
                                        break;
                                    }
                                    it = item.next();
                                }
                            }
                        }
                        body = format!("\"ret\":0,\"vals\":[{}],\"recs\":[{}],\"err\":\"\"", k, recs.join(","));
                    }
                    _ => body = "\"ret\":0,\"vals\":[],\"err\":\"unknown op\"".into(),
                });
                let st = match guarded(|| state_json(p)) {
                    Ok(s) => s,
                    Err(()) => "{\"bytes\":[],\"view\":{\"poisoned\":true}}".to_string(),
                };
                match r {
                    Ok(()) => out.push(format!("{{\"i\":{},\"op\":\"{}\",\"died\":false,{},\"state\":{}}}", n, op, body, st)),
                    Err(()) => {
                        out.push(format!("{{\"i\":{},\"op\":\"{}\",\"died\":true,\"state\":{}}}", n, op, st));
                        break;
                    }
                }
                n += 1;
            }
            _ => {}
        }
    }
    out
}


// ---------------------------------------------------------------------------------------------
// C16: thread schedules on the error slot of the table

/// Failing table calls with pairwise different descriptions; returns (return value, err pointer)
unsafe fn failing_call(t: &FnTable, pp: *mut ParsedPacket, kind: usize, err: &mut *const CErr) -> i32 {
    use std::ffi::CString;
    match kind % 5 {
        0 => {
            let s = CString::new("bad text").unwrap();
            (t.add_to_answer)(pp, err as *mut *const CErr, s.as_ptr())
        }
        1 => {
            let mut out = [0u8; 256];
            let mut len: size_t = 0;
            let name = [b'x'; 70];
            (t.raw_name_from_str)(&mut out, &mut len, err as *mut *const CErr, name.as_ptr() as *const c_char, name.len())
        }
        2 => {
            let s = CString::new("x.a. 5 IN A 1.1.1.1").unwrap();
            (t.add_to_question)(pp, err as *mut *const CErr, s.as_ptr())
        }
        3 => {
            let src = [1u8, b'a', 0];
            (t.rename_with_raw_names)(pp, err as *mut *const CErr, src.as_ptr(), 0, src.as_ptr(), 3, false)
        }
        _ => {
            let mut out = [0u8; 256];
            let mut len: size_t = 0;
            let name = b"a..b";
            (t.raw_name_from_str)(&mut out, &mut len, err as *mut *const CErr, name.as_ptr() as *const c_char, name.len())
        }
    }
}

/// the text the same failing operation reports natively
fn native_failure_text(pp: &mut ParsedPacket, kind: usize) -> String {
    let r: Result<(), Error> = match kind % 5 {
        0 => pp.insert_rr_from_string(Section::Answer, "bad text"),
        1 => dnssector::synth::r#gen::raw_name_from_str(&[b'x'; 70], None).map(|_| ()),
        2 => pp.insert_rr_from_string(Section::Question, "x.a. 5 IN A 1.1.1.1"),
        3 => pp.rename_with_raw_names(&[], &[1, b'a', 0], false),
        _ => dnssector::synth::r#gen::raw_name_from_str(b"a..b", None).map(|_| ()),
    };
    match r {
        Ok(()) => "<no failure>".to_string(),
        Err(e) => e.to_string(),
    }
}

pub fn run_schedule(v: &serde_json::Value) -> String {
    use std::sync::mpsc::channel;
    let n = vusize(&v["n"]).max(1);
    let program: Vec<String> = v["program"].as_array().map(|a| a.iter().map(vstr).collect()).unwrap_or_default();
    let order: Vec<usize> = v["order"].as_array().map(|a| a.iter().map(vusize).collect()).unwrap_or_default();
    let kinds: Vec<Vec<usize>> = v["kinds"].as_array().map(|a| a.iter().map(|r| r.as_array().map(|x| x.iter().map(vusize).collect()).unwrap_or_default()).collect()).unwrap_or_default();
    let base: Vec<u8> = vec![0, 7, 0x81, 0x80, 0, 1, 0, 1, 0, 0, 0, 0, 1, b'q', 0, 0, 1, 0, 1, 0xc0, 12, 0, 1, 0, 1, 0, 0, 0, 9, 0, 4, 1, 2, 3, 4];
    let (res_tx, res_rx) = channel::<String>();
    // "lazy": a thread is created when the schedule first names it and joined after its last step (thread churn
    // with more threads over the life of the process than can be alive at once)
    let lazy = v["lazy"].as_bool().unwrap_or(false);
    let spawn_one = |t: usize| {
        let (tx, rx) = channel::<()>();
        let res_tx = res_tx.clone();
        let program = program.clone();
        let base = base.clone();
        let kinds = kinds.clone();
        let h = std::thread::spawn(move || {
            let table = dnssector::c_abi::fn_table();
            let mut pp = DNSSector::new(base.clone()).unwrap().parse().unwrap();
            let mut shadow = DNSSector::new(base).unwrap().parse().unwrap();
            let mut err: *const CErr = std::ptr::null();
            let mut nfail = 0;
            for (k, a) in program.iter().enumerate() {
                if rx.recv().is_err() {
                    return;
                }
                let line = if a == "F" {
                    // which failure: distinct per thread and step by default, or as the scenario prescribes
                    // (threads failing with identical descriptions)
                    let kind = match kinds.get((t - 1) % kinds.len().max(1)) {
                        Some(row) if !row.is_empty() => row[nfail % row.len()],
                        _ => (t - 1) * 2 + nfail,
                    };
                    nfail += 1;
                    let native = native_failure_text(&mut shadow, kind);
                    let ret = unsafe { failing_call(&table, &mut pp as *mut ParsedPacket, kind, &mut err) };
                    format!("{{\"t\":{},\"pc\":{},\"a\":\"F\",\"kind\":{},\"ret\":{},\"text\":{}}}", t, k + 1, kind % 5, ret, jstr(&native))
                } else {
                    let msg = if err.is_null() {
                        "<null>".to_string()
                    } else {
                        unsafe { std::ffi::CStr::from_ptr((table.error_description)(err)).to_string_lossy().to_string() }
                    };
                    format!("{{\"t\":{},\"pc\":{},\"a\":\"R\",\"kind\":0,\"ret\":0,\"text\":{}}}", t, k + 1, jstr(&msg))
                };
                let _ = res_tx.send(line);
            }
        });
        (tx, h)
    };
    let mut go_tx: Vec<Option<std::sync::mpsc::Sender<()>>> = (0..n).map(|_| None).collect();
    let mut handles: Vec<Option<std::thread::JoinHandle<()>>> = (0..n).map(|_| None).collect();
    let mut left: Vec<usize> = vec![program.len(); n];
    if !lazy {
        for t in 1..=n {
            let (tx, h) = spawn_one(t);
            go_tx[t - 1] = Some(tx);
            handles[t - 1] = Some(h);
        }
    }
    let mut steps = vec![];
    for t in order.iter() {
        if *t == 0 || *t > n {
            continue;
        }
        if go_tx[*t - 1].is_none() && handles[*t - 1].is_none() && left[*t - 1] > 0 {
            let (tx, h) = spawn_one(*t);
            go_tx[*t - 1] = Some(tx);
            handles[*t - 1] = Some(h);
        }
        if go_tx[*t - 1].as_ref().map(|tx| tx.send(()).is_err()).unwrap_or(true) {
            break;
        }
        match res_rx.recv_timeout(std::time::Duration::from_secs(10)) {
            Ok(l) => {
                steps.push(l);
                left[*t - 1] = left[*t - 1].saturating_sub(1);
                if lazy && left[*t - 1] == 0 {
                    go_tx[*t - 1] = None;
                    if let Some(h) = handles[*t - 1].take() {
                        let _ = h.join();
                    }
                }
            }
            Err(_) => {
                steps.push(format!("{{\"t\":{},\"pc\":0,\"a\":\"X\",\"kind\":0,\"ret\":0,\"text\":\"thread died\"}}", t));
                break;
            }
        }
    }
    drop(go_tx);
    for h in handles.into_iter().flatten() {
        let _ = h.join();
    }
    format!("{{\"k\":\"sched\",\"n\":{},\"order\":{},\"steps\":[{}]}}", n, v["order"], steps.join(","))
}
