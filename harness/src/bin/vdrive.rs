//! vdrive: executes scenarios against the real dnssector and logs observations as ndjson.
//!
//!   vdrive gen <family> <seed> <n>      scenario lines on stdout
//!   vdrive run [<watchdog secs>]         scenario lines on stdin, observation lines on stdout
use std::io::{BufRead, Write};
use vharness::*;

fn main() {
    std::panic::set_hook(Box::new(|_| {}));
    let args: Vec<String> = std::env::args().collect();
    let out = std::io::stdout();
    match args.get(1).map(|s| s.as_str()) {
        Some("gen") => {
            let fam = args[2].as_str();
            let seed: u64 = args[3].parse().unwrap();
            let n: usize = args[4].parse().unwrap();
            let mut out = std::io::BufWriter::new(out.lock());
            gen_family(fam, seed, n, &mut out);
            out.flush().unwrap();
        }
        Some("run") => {
            let secs: u64 = args.get(2).and_then(|s| s.parse().ok()).unwrap_or(20);
            let prog = Progress::start(secs);
            let stdin = std::io::stdin();
            let mut hid: u64 = args.get(3).and_then(|s| s.parse().ok()).unwrap_or(0);
            for line in stdin.lock().lines() {
                let line = line.unwrap();
                prog.tick();
                if line.trim().is_empty() {
                    continue;
                }
                let v: serde_json::Value = match serde_json::from_str(&line) {
                    Ok(v) => v,
                    Err(_) => continue,
                };
                // write-ahead marker on stderr so that an abort is attributable
                // every scenario's output (one line, or several for a history) ends with a "#" line
                hid += 1;
                let lines: Vec<String> = if v["do"].as_str() == Some("hist") {
                    hist::run_history(&v, hid)
                } else if v["do"].as_str() == Some("cscript") {
                    let script: Vec<String> = v["lines"].as_array().map(|a| a.iter().map(|x| vstr(x)).collect()).unwrap_or_default();
                    cabi::run_script_native(&script)
                } else {
                    match exec::run_line(&v) {
                        Some(o) => vec![o],
                        None => vec!["{\"k\":\"skip\"}".to_string()],
                    }
                };
                let mut o2 = out.lock();
                for l in lines {
                    writeln!(o2, "{}", l).unwrap();
                }
                writeln!(o2, "#").unwrap();
                o2.flush().unwrap();
            }
        }
        _ => {
            eprintln!("usage: vdrive gen <family> <seed> <n> | vdrive run [secs]");
            std::process::exit(2);
        }
    }
}

fn gen_family(fam: &str, seed: u64, n: usize, out: &mut impl Write) {
    let mut r = Rng::new(seed);
    match fam {
        // packets only: {"pkt": [...]}
        "structured" | "honest" | "pointerfree" => {
            let o = gen::PktOpts { honest: fam != "structured", pointer_free: fam == "pointerfree", max_recs: 3 };
            for _ in 0..n {
                let p = gen::gen_packet(&mut r, &o);
                writeln!(out, "{{\"pkt\":{}}}", jbytes(&p)).unwrap();
            }
        }
        "random" => {
            for _ in 0..n {
                let p = gen::gen_random_bytes(&mut r);
                writeln!(out, "{{\"pkt\":{}}}", jbytes(&p)).unwrap();
            }
        }
        "havoc" | "truncs" => {
            // seeds: ndjson lines with a "pkt" field (path in argv[5])
            let path = std::env::args().nth(5).expect("seed file");
            let seeds: Vec<Vec<u8>> = std::fs::read_to_string(path)
                .unwrap()
                .lines()
                .filter_map(|l| serde_json::from_str::<serde_json::Value>(l).ok())
                .map(|v| vbytes(&v["pkt"]))
                .collect();
            if fam == "havoc" {
                for _ in 0..n {
                    let s = &seeds[r.below(seeds.len())];
                    let p = gen::havoc(&mut r, s);
                    writeln!(out, "{{\"pkt\":{}}}", jbytes(&p)).unwrap();
                }
            } else {
                // every prefix of the first n seeds that are at most 300 bytes long
                for s in seeds.iter().filter(|s| s.len() <= 300).take(n) {
                    for k in 0..=s.len() {
                        writeln!(out, "{{\"pkt\":{}}}", jbytes(&s[..k])).unwrap();
                    }
                }
            }
        }
        "boundary" => {
            for p in gen::boundary_packets() {
                writeln!(out, "{{\"pkt\":{}}}", jbytes(&p)).unwrap();
            }
        }
        "big" => {
            for p in gen::big_packets() {
                writeln!(out, "{{\"pkt\":{}}}", jbytes(&p)).unwrap();
            }
        }
        "beyond64k" => {
            for p in gen::beyond_64k_packets() {
                writeln!(out, "{{\"pkt\":{}}}", jbytes(&p)).unwrap();
            }
        }
        "compressfam" => {
            for p in gen::compress_families() {
                writeln!(out, "{{\"pkt\":{}}}", jbytes(&p)).unwrap();
            }
        }
        "adversarial" => {
            for p in gen::adversarial_packets(&mut r, n) {
                writeln!(out, "{{\"pkt\":{}}}", jbytes(&p)).unwrap();
            }
        }
        _ => {
            eprintln!("unknown family {}", fam);
            std::process::exit(2);
        }
    }
}
