//! Executors for single-call ("stateless") events: one scenario line in, one observation line out.

use crate::util::*;
use dnssector::*;
use serde_json::Value;

fn steps() -> u64 {
    dnssector::verif::steps()
}

/// C01 / C02 / C18: `DNSSector::new(b).parse()`.
pub fn parse_event(pkt: &[u8], log_bytes: bool) -> String {
    let s0 = steps();
    let p = pkt.to_vec();
    let r = guarded(|| DNSSector::new(p).and_then(|d| d.parse()));
    let st = steps() - s0;
    let (res, same, err) = match r {
        Ok(Ok(pp)) => {
            let same = guarded(|| pp.packet() == pkt).unwrap_or(false);
            ("ok", same, String::new())
        }
        Ok(Err(e)) => ("err", false, e.to_string()),
        Err(()) => ("panic", false, String::new()),
    };
    format!(
        "{{\"k\":\"parse\",\"pkt\":{},\"logged\":{},\"len\":{},\"res\":\"{}\",\"same\":{},\"steps\":{},\"err\":{}}}",
        if log_bytes { jbytes(pkt) } else { "[]".to_string() },
        log_bytes,
        pkt.len(),
        res,
        same,
        st.min(2_000_000_000),
        jstr(&err)
    )
}

/// C01: the public name checkers on any buffer and any offset.
pub fn namecheck_event(pkt: &[u8], off: usize, offj: &str) -> String {
    let c = guarded(|| Compress::check_compressed_name(pkt, off));
    let u = guarded(|| DNSSector::check_uncompressed_name(pkt, off));
    let f = |r: &Result<Result<usize, Error>, ()>| match r {
        Ok(Ok(e)) => format!("{{\"res\":\"ok\",\"end\":{}}}", e),
        Ok(Err(_)) => "{\"res\":\"err\",\"end\":0}".to_string(),
        Err(()) => "{\"res\":\"panic\",\"end\":0}".to_string(),
    };
    format!(
        "{{\"k\":\"name\",\"pkt\":{},\"off\":{},\"c\":{},\"u\":{}}}",
        jbytes(pkt),
        offj,
        f(&c),
        f(&u)
    )
}

/// Encodes a usize argument for TLC (32-bit integers): values >= 2^30 are logged as -1 ("huge").
fn jarg(x: usize) -> String {
    if x >= (1 << 30) {
        "-1".into()
    } else {
        format!("{}", x)
    }
}

/// C01: cursor primitives of `DNSSector` with arbitrary arguments.
/// ops: sequence of [code, arg]; codes 0 set_offset, 1 increment_offset, 2 rr_rdlen, 3 edns_rr_rdlen
pub fn prims_event(pkt: &[u8], ops: &[(u8, usize)]) -> String {
    let mut out = format!("{{\"k\":\"prims\",\"pkt\":{},\"ops\":[", jbytes(pkt));
    let d = guarded(|| DNSSector::new(pkt.to_vec()));
    let mut d = match d {
        Ok(Ok(d)) => d,
        _ => return format!("{{\"k\":\"prims\",\"pkt\":{},\"ops\":[],\"new\":\"failed\"}}", jbytes(pkt)),
    };
    let mut dead = false;
    for (i, (code, arg)) in ops.iter().enumerate() {
        if i > 0 {
            out.push(',');
        }
        if dead {
            out += &format!("{{\"op\":{},\"arg\":{},\"res\":\"skipped\",\"val\":0,\"off\":0}}", code, jarg(*arg));
            continue;
        }
        let r = guarded(|| match code {
            0 => d.set_offset(*arg),
            1 => d.increment_offset(*arg),
            2 => d.rr_rdlen(),
            _ => d.edns_rr_rdlen(),
        });
        let (res, val) = match &r {
            Ok(Ok(v)) => ("ok", *v),
            Ok(Err(_)) => ("err", 0),
            Err(()) => {
                dead = true;
                ("panic", 0)
            }
        };
        out += &format!(
            "{{\"op\":{},\"arg\":{},\"res\":\"{}\",\"val\":{},\"off\":{}}}",
            code,
            jarg(*arg),
            res,
            jarg(val),
            jarg(d.offset)
        );
    }
    out += "],\"new\":\"ok\"}";
    out
}

// ---------------------------------------------------------------------------------------------
// C03 / C04: everything the readers and getters report for an accepted packet

fn sec_name(s: Result<Section, Error>) -> &'static str {
    match s {
        Ok(Section::Question) => "Q",
        Ok(Section::Answer) => "AN",
        Ok(Section::NameServers) => "NS",
        Ok(Section::Additional) => "AR",
        Ok(Section::Edns) => "EDNS",
        Err(_) => "ERR",
    }
}

pub fn rr_json<T: DNSIterable + TypedIterable + RdataIterable>(i: &T) -> String {
    let mut raw = vec![];
    let rawlen = i.copy_raw_name(&mut raw);
    let rd = match i.rr_rd() {
        Ok(RawRRData::IpAddr(std::net::IpAddr::V4(a))) => format!("{{\"k\":\"ip\",\"b\":{}}}", jbytes(&a.octets())),
        Ok(RawRRData::IpAddr(std::net::IpAddr::V6(a))) => format!("{{\"k\":\"ip\",\"b\":{}}}", jbytes(&a.octets())),
        Ok(RawRRData::Data(d)) => format!("{{\"k\":\"data\",\"b\":{}}}", jbytes(d)),
        Err(_) => "{\"k\":\"err\",\"b\":[]}".to_string(),
    };
    let ip = match i.rr_ip() {
        Ok(std::net::IpAddr::V4(a)) => jbytes(&a.octets()),
        Ok(std::net::IpAddr::V6(a)) => jbytes(&a.octets()),
        Err(_) => "[]".into(),
    };
    format!(
        "{{\"off\":{},\"name_end\":{},\"next\":{},\"name\":{},\"raw\":{},\"rawlen\":{},\"type\":{},\"class\":{},\"ttl\":{},\"rdlen\":{},\"rd\":{},\"ip\":{},\"sec\":\"{}\"}}",
        i.offset().unwrap(),
        i.raw().name_end,
        i.offset_next(),
        jbytes(&i.name()),
        jbytes(&raw),
        rawlen,
        i.rr_type(),
        i.rr_class(),
        ju32(i.rr_ttl()),
        i.rr_rdlen(),
        rd,
        ip,
        sec_name(i.current_section())
    )
}

pub fn view_json(pp: &ParsedPacket) -> String {
    let cached = match &pp.cached {
        None => "[]".to_string(),
        Some((n, t, c)) => format!("[{{\"raw0\":{},\"type\":{},\"class\":{}}}]", jbytes(n), t, c),
    };
    format!(
        "{{\"oq\":{},\"oan\":{},\"ons\":{},\"oar\":{},\"oedns\":{},\"ecount\":{},\"ver\":{},\"xrcode\":{},\"xflags\":{},\"maxp\":{},\"mc\":{},\"cached\":{}}}",
        jopt(pp.offset_question),
        jopt(pp.offset_answers),
        jopt(pp.offset_nameservers),
        jopt(pp.offset_additional),
        jopt(pp.offset_edns),
        pp.edns_count,
        jopt(pp.edns_version),
        jopt(pp.ext_rcode),
        jopt(pp.ext_flags),
        pp.max_payload.min(1 << 30),
        pp.maybe_compressed,
        cached
    )
}

fn collect<'a, T>(first: Option<T>, adv: impl Fn(T) -> Option<T>, js: impl Fn(&T) -> String) -> String {
    let mut o = String::from("[");
    let mut it = first;
    let mut firstf = true;
    let mut guard = 0usize;
    while let Some(i) = it {
        if !firstf {
            o.push(',');
        }
        firstf = false;
        o += &js(&i);
        it = adv(i);
        guard += 1;
        if guard > 70000 {
            panic!("reader does not terminate");
        }
    }
    o.push(']');
    o
}

pub fn read_event(pkt: &[u8]) -> Option<String> {
    let mut pp = match guarded(|| DNSSector::new(pkt.to_vec()).and_then(|d| d.parse())) {
        Ok(Ok(pp)) => pp,
        _ => return None,
    };
    let r = guarded(|| {
        let mut o = format!("{{\"k\":\"read\",\"pkt\":{}", jbytes(pkt));
        o += &format!(",\"view\":{}", view_json(&pp));
        let fl = pp.flags();
        o += &format!(
            ",\"sum\":{{\"tid\":{},\"fhi\":{},\"flo\":{},\"rcode\":{},\"opcode\":{},\"qr\":{},\"dnssec\":{},\"maxp\":{}",
            pp.tid(),
            fl >> 16,
            fl & 0xffff,
            pp.rcode(),
            pp.opcode(),
            pp.is_response(),
            pp.dnssec(),
            pp.max_payload().min(1 << 30)
        );
        // question getters: twice, before and after the cache is filled
        let qq = pp.qtype_qclass().unwrap();
        let qt = pp.question().unwrap();
        o += &format!(",\"q_text\":{},\"q_type\":{},\"q_class\":{},\"qq\":[{},{}]", jbytes(&qt.0), qt.1, qt.2, qq.0, qq.1);
        {
            let q0 = pp.question_raw0().unwrap();
            o += &format!(",\"q_raw0\":{},\"q0_type\":{},\"q0_class\":{}", jbytes(q0.0), q0.1, q0.2);
        }
        {
            let q1 = pp.question_raw().unwrap();
            o += &format!(",\"q_raw\":{}", jbytes(q1.0));
        }
        let qt2 = pp.question().unwrap();
        let qq2 = pp.qtype_qclass().unwrap();
        o += &format!(",\"q_text2\":{},\"q2_type\":{},\"q2_class\":{},\"qq2\":[{},{}]}}", jbytes(&qt2.0), qt2.1, qt2.2, qq2.0, qq2.1);
        o += ",\"q\":";
        o += &collect(pp.into_iter_question(), |i| i.next(), |i| {
            let mut raw = vec![];
            i.copy_raw_name(&mut raw);
            format!(
                "{{\"off\":{},\"name_end\":{},\"next\":{},\"name\":{},\"raw\":{},\"type\":{},\"class\":{},\"sec\":\"{}\"}}",
                i.offset().unwrap(),
                i.raw().name_end,
                i.offset_next(),
                jbytes(&i.name()),
                jbytes(&raw),
                i.rr_type(),
                i.rr_class(),
                sec_name(i.current_section())
            )
        });
        o += ",\"an\":";
        o += &collect(pp.into_iter_answer(), |i| i.next(), |i| rr_json(i));
        o += ",\"ns\":";
        o += &collect(pp.into_iter_nameservers(), |i| i.next(), |i| rr_json(i));
        o += ",\"ar\":";
        o += &collect(pp.into_iter_additional_including_opt(), |i| i.next_including_opt(), |i| rr_json(i));
        o += ",\"arskip\":";
        o += &collect(pp.into_iter_additional(), |i| i.next(), |i| rr_json(i));
        o += ",\"edns\":";
        o += &collect(pp.into_iter_edns(), |i| i.next(), |i| {
            format!("{{\"off\":{},\"next\":{}}}", i.offset().unwrap(), i.offset_next())
        });
        o += &format!(",\"same\":{},\"res\":\"ok\"}}", pp.packet() == pkt);
        o
    });
    Some(match r {
        Ok(o) => o,
        Err(()) => format!("{{\"k\":\"read\",\"pkt\":{},\"res\":\"panic\"}}", jbytes(pkt)),
    })
}

// ---------------------------------------------------------------------------------------------
// C05 decompression, C06 compression

fn out3(r: &Result<Result<Vec<u8>, Error>, ()>) -> String {
    match r {
        Ok(Ok(b)) => format!("{{\"k\":\"ok\",\"b\":{},\"e\":\"\"}}", jbytes(b)),
        Ok(Err(e)) => format!("{{\"k\":\"err\",\"b\":[],\"e\":{}}}", jstr(&e.to_string())),
        Err(()) => "{\"k\":\"panic\",\"b\":[],\"e\":\"\"}".to_string(),
    }
}

/// `bounds`: reference offsets to carry across (chosen by the orchestrator from the spec's
/// `Boundaries`, or every offset 12..=len when `all_offsets`): the driver does not decode.
pub fn uncompress_event(pkt: &[u8], bounds: &[usize]) -> String {
    let u = guarded(|| Compress::uncompress(pkt));
    let u2 = match &u {
        Ok(Ok(b)) => guarded(|| Compress::uncompress(b)),
        _ => Ok(Err(anyhow_msg("skipped"))),
    };
    let mut o = format!("{{\"k\":\"uncompress\",\"pkt\":{},\"out\":{},\"again\":{},\"carry\":[", jbytes(pkt), out3(&u), out3(&u2));
    for (i, b) in bounds.iter().enumerate() {
        if i > 0 {
            o.push(',');
        }
        let r = guarded(|| Compress::uncompress_with_previous_offset(pkt, *b));
        match r {
            Ok(Ok((ob, no))) => {
                let same = matches!(&u, Ok(Ok(x)) if *x == ob);
                o += &format!("{{\"ref\":{},\"k\":\"ok\",\"new\":{},\"same_out\":{}}}", b, no, same)
            }
            Ok(Err(_)) => o += &format!("{{\"ref\":{},\"k\":\"err\",\"new\":0,\"same_out\":false}}", b),
            Err(()) => o += &format!("{{\"ref\":{},\"k\":\"panic\",\"new\":0,\"same_out\":false}}", b),
        }
    }
    o += "]}";
    o
}

fn anyhow_msg(s: &'static str) -> Error {
    DSError::InternalError(s).into()
}

pub fn compress_event(pkt: &[u8]) -> String {
    let c = guarded(|| Compress::compress(pkt));
    let back = match &c {
        Ok(Ok(b)) => guarded(|| Compress::uncompress(b)),
        _ => Ok(Err(anyhow_msg("skipped"))),
    };
    format!("{{\"k\":\"compress\",\"pkt\":{},\"out\":{},\"back\":{}}}", jbytes(pkt), out3(&c), out3(&back))
}

// ---------------------------------------------------------------------------------------------
// C07 renaming (bytes out, through Renamer)

pub fn rename_event(pkt: &[u8], target: &[u8], source: &[u8], suffix: bool) -> Option<String> {
    let mut pp = match guarded(|| DNSSector::new(pkt.to_vec()).and_then(|d| d.parse())) {
        Ok(Ok(pp)) => pp,
        _ => return None,
    };
    let r = guarded(|| Renamer::rename_with_raw_names(&mut pp, target, source, suffix));
    let untouched = guarded(|| pp.packet() == pkt).unwrap_or(false);
    Some(format!(
        "{{\"k\":\"rename\",\"pkt\":{},\"target\":{},\"source\":{},\"suffix\":{},\"out\":{},\"input_untouched\":{}}}",
        jbytes(pkt),
        jbytes(target),
        jbytes(source),
        suffix,
        out3(&r),
        untouched
    ))
}

fn suffixes(raw: &[u8]) -> Vec<Vec<u8>> {
    let mut v = vec![];
    let mut i = 0;
    while i < raw.len() && raw[i] != 0 && raw[i] < 64 {
        v.push(raw[i..].to_vec());
        i += raw[i] as usize + 1;
    }
    v
}

/// Several renames of one packet with (target, source, mode) drawn from a menu built from the
/// owner names the library itself reports (matches at every label depth, case variants,
/// partial-label near misses, self renames, growth past 255).  The menu only steers the inputs
/// towards interesting cases; the oracle is the specification.  Returns several lines.
pub fn rename_menu(pkt: &[u8], seed: u64, n: usize) -> Option<String> {
    let mut pp = match guarded(|| DNSSector::new(pkt.to_vec()).and_then(|d| d.parse())) {
        Ok(Ok(pp)) => pp,
        _ => return None,
    };
    let mut r = Rng::new(seed ^ (pkt.len() as u64) << 20);
    let names = guarded(|| {
        let mut names: Vec<Vec<u8>> = vec![];
        {
            let mut it = pp.into_iter_question();
            while let Some(i) = it {
                let mut n = vec![];
                i.copy_raw_name(&mut n);
                names.push(n);
                it = i.next();
            }
        }
        {
            let mut it = pp.into_iter_answer();
            while let Some(i) = it {
                let mut n = vec![];
                i.copy_raw_name(&mut n);
                names.push(n);
                if let Ok(RawRRData::Data(d)) = i.rr_rd() {
                    // data of name-bearing types often is (or ends with) a literal name
                    if d.len() > 2 && d.len() < 255 && matches!(i.rr_type(), 2 | 5 | 12) && !d.iter().any(|b| *b >= 0xc0) {
                        names.push(d.to_vec());
                    }
                }
                it = i.next();
            }
        }
        {
            let mut it = pp.into_iter_nameservers();
            while let Some(i) = it {
                let mut n = vec![];
                i.copy_raw_name(&mut n);
                names.push(n);
                it = i.next();
            }
        }
        {
            let mut it = pp.into_iter_additional_including_opt();
            while let Some(i) = it {
                let mut n = vec![];
                i.copy_raw_name(&mut n);
                names.push(n);
                it = i.next_including_opt();
            }
        }
        names
    })
    .unwrap_or_default();
    let mut cands: Vec<Vec<u8>> = names.iter().flat_map(|n| suffixes(n)).collect();
    cands.push(vec![1, b'a', 0]);
    cands.push(vec![2, b'a', b'b', 0]);
    let mut lines = vec![];
    for _ in 0..n {
        let mut source = cands[r.below(cands.len())].clone();
        match r.below(7) {
            0 => {
                for b in source.iter_mut() {
                    if b.is_ascii_lowercase() {
                        *b -= 32;
                    } else if b.is_ascii_uppercase() {
                        *b += 32;
                    }
                }
            }
            1 => {
                // near miss: drop the first character of the first label
                if source.len() > 3 && source[0] > 1 {
                    let l = source[0] - 1;
                    source.remove(1);
                    source[0] = l;
                }
            }
            2 => {
                // near miss: prepend a character to the first label
                if source[0] < 60 {
                    source[0] += 1;
                    source.insert(1, b'x');
                }
            }
            _ => {}
        }
        let target: Vec<u8> = match r.below(6) {
            0 => source.clone(),
            1 => vec![1, b'z', 0],
            2 => vec![3, b'x', b'Y', b'z', 2, b'f', b'r', 0],
            3 => {
                // maximal target: makes rewritten names overflow unless the prefix is empty
                let mut t = vec![];
                for _ in 0..3 {
                    t.push(63);
                    t.extend(vec![b'q'; 63]);
                }
                t.push(60);
                t.extend(vec![b'q'; 60]);
                t.push(0);
                t
            }
            4 => {
                let mut t = vec![];
                for _ in 0..r.below(4) + 1 {
                    t.push(50);
                    t.extend(vec![b'w'; 50]);
                }
                t.push(0);
                t
            }
            _ => cands[r.below(cands.len())].clone(),
        };
        let suffix_mode = r.below(2) == 0;
        if let Some(l) = rename_event(pkt, &target, &source, suffix_mode) {
            lines.push(l);
        }
    }
    if lines.is_empty() {
        None
    } else {
        Some(lines.join("\n"))
    }
}

// ---------------------------------------------------------------------------------------------
// C12 header setters: one event per initial flag word, vectors of (argument, result) inside

/// question + optional opaque padding record (additional section) + optional OPT advertising `payload`
fn hdr_packet(tid: u16, w: u16, xfl: Option<u16>, pad: usize, payload: u16, xrv: (u8, u8)) -> Vec<u8> {
    let ar = (if xfl.is_some() { 1 } else { 0 }) + (if pad > 0 { 1 } else { 0 });
    let mut p = vec![(tid >> 8) as u8, tid as u8, (w >> 8) as u8, w as u8, 0, 1, 0, 0, 0, 0, 0, ar];
    p.extend(&[1, b'h', 0, 0, 1, 0, 1]);
    if pad > 0 {
        p.extend(&[0, 0, 16, 0, 1, 0, 0, 0, 0, (pad >> 8) as u8, pad as u8]);
        p.extend(vec![b'.'; pad]);
    }
    if let Some(x) = xfl {
        p.extend(&[0, 0, 41, (payload >> 8) as u8, payload as u8, xrv.0, xrv.1, (x >> 8) as u8, x as u8, 0, 0]);
    }
    p
}

pub fn header_event(v: &Value) -> String {
    let w = v["w"].as_u64().unwrap_or(0) as u16;
    let tid = v["tid"].as_u64().unwrap_or(0) as u16;
    let xfl = v["xfl"].as_i64().and_then(|x| if x < 0 { None } else { Some(x as u16) });
    let pad = v["pad"].as_u64().unwrap_or(0) as usize;
    let payload = v["payload"].as_u64().unwrap_or(1232) as u16;
    // extended rcode and EDNS version bytes of the OPT record (default 2, 1)
    let xrv = (v["xrcode"].as_u64().unwrap_or(2) as u8, v["ver"].as_u64().unwrap_or(1) as u8);
    let base = hdr_packet(tid, w, xfl, pad, payload, xrv);
    let fresh = || DNSSector::new(base.clone()).unwrap().parse();
    if fresh().is_err() {
        return format!("{{\"k\":\"hdr\",\"w\":{},\"res\":\"base-rejected\"}}", w);
    }
    // everything except the two bytes a setter may touch
    let rest_same = |p: &[u8], lo: usize, hi: usize| -> bool {
        p.len() == base.len() && (0..p.len()).all(|i| (i >= lo && i < hi) || p[i] == base[i])
    };
    let word = |p: &[u8]| ((p[2] as u32) << 8 | p[3] as u32) as u32;
    let r = guarded(|| {
        let mut o = format!("{{\"k\":\"hdr\",\"res\":\"ok\",\"w\":{},\"tid\":{},\"xfl\":{},\"flags\":[", w, tid, xfl.map(|x| x as i64).unwrap_or(-1));
        for (i, a) in v["fa"].as_array().unwrap().iter().enumerate() {
            let (lo, hi) = (a[0].as_u64().unwrap() as u32, a[1].as_u64().unwrap() as u32);
            let mut pp = fresh().unwrap();
            pp.set_flags((hi << 16) | lo);
            let g = pp.flags();
            let qr = pp.is_response();
            let p = pp.packet();
            if i > 0 {
                o.push(',');
            }
            o += &format!("[{},{},{},{},{},{},{}]", lo, hi, word(p), rest_same(p, 2, 4) as u8, g & 0xffff, g >> 16, qr as u8);
        }
        o += "],\"rcode\":[";
        for (i, a) in v["rv"].as_array().unwrap().iter().enumerate() {
            let x = a.as_u64().unwrap() as u8;
            let mut pp = fresh().unwrap();
            pp.set_rcode(x);
            let g = pp.rcode();
            let p = pp.packet();
            if i > 0 {
                o.push(',');
            }
            o += &format!("[{},{},{},{}]", x, word(p), rest_same(p, 2, 4) as u8, g);
        }
        o += "],\"opcode\":[";
        for (i, a) in v["ov"].as_array().unwrap().iter().enumerate() {
            let x = a.as_u64().unwrap() as u8;
            let mut pp = fresh().unwrap();
            pp.set_opcode(x);
            let g = pp.opcode();
            let p = pp.packet();
            if i > 0 {
                o.push(',');
            }
            o += &format!("[{},{},{},{}]", x, word(p), rest_same(p, 2, 4) as u8, g);
        }
        o += "],\"qr\":[";
        for b in 0..2u8 {
            let mut pp = fresh().unwrap();
            pp.set_response(b == 1);
            let g = pp.is_response();
            let p = pp.packet();
            // the free-standing helper on raw bytes must agree
            let mut raw = base.clone();
            DNSSector::set_response(&mut raw, b == 1);
            let g2 = DNSSector::is_response(&raw);
            if b > 0 {
                o.push(',');
            }
            o += &format!("[{},{},{},{},{},{},{}]", b, word(p), rest_same(p, 2, 4) as u8, g as u8, word(&raw), rest_same(&raw, 2, 4) as u8, g2 as u8);
        }
        o += "],\"tidset\":[";
        for (i, a) in v["tv"].as_array().unwrap().iter().enumerate() {
            let x = a.as_u64().unwrap() as u16;
            let mut pp = fresh().unwrap();
            pp.set_tid(x);
            let g = pp.tid();
            let p = pp.packet();
            if i > 0 {
                o.push(',');
            }
            o += &format!("[{},{},{},{},{}]", x, (p[0] as u32) << 8 | p[1] as u32, word(p), rest_same(p, 0, 2) as u8, g);
        }
        o += "]}";
        o
    });
    match r {
        Ok(o) => o,
        Err(()) => format!("{{\"k\":\"hdr\",\"w\":{},\"res\":\"panic\"}}", w),
    }
}

/// Thorough tier: sweep all 2^32 (word, argument) pairs in the implementation and report every pair
/// for which set_flags(w, a) differs from set_flags(w, 0) | set_flags(0, a); with the tables
/// f(w, 0) and f(0, a) validated by TLC this extends the validation to all pairs.
pub fn decomposition_sweep(threads: usize) -> String {
    let base = hdr_packet(0, 0, None, 0, 1232, (2, 1));
    let f = |pp: &mut ParsedPacket, w: u16, a: u32| -> u16 {
        {
            let p = pp.packet_mut();
            p[2] = (w >> 8) as u8;
            p[3] = w as u8;
        }
        pp.set_flags(a);
        let p = pp.packet();
        (p[2] as u16) << 8 | p[3] as u16
    };
    let mut handles = vec![];
    for t in 0..threads {
        let base = base.clone();
        handles.push(std::thread::spawn(move || {
            let mut pp = DNSSector::new(base).unwrap().parse().unwrap();
            let mut f0a = vec![0u16; 65536];
            for a in 0..65536u32 {
                f0a[a as usize] = f(&mut pp, 0, a);
            }
            let mut bad: Vec<(u16, u32, u16, u16, u16)> = vec![];
            let mut n: u64 = 0;
            let mut w = t as u32;
            while w < 65536 {
                let fw0 = f(&mut pp, w as u16, 0);
                for a in 0..65536u32 {
                    let got = f(&mut pp, w as u16, a);
                    n += 1;
                    if got != (fw0 | f0a[a as usize]) && bad.len() < 5 {
                        bad.push((w as u16, a, got, fw0, f0a[a as usize]));
                    }
                }
                w += threads as u32;
            }
            (n, bad)
        }));
    }
    let mut total = 0u64;
    let mut bad = vec![];
    for h in handles {
        match h.join() {
            Ok((n, b)) => {
                total += n;
                bad.extend(b);
            }
            Err(_) => return "{\"k\":\"decomp\",\"res\":\"panic\",\"pairs_hi\":0,\"pairs_lo\":0,\"bad\":[]}".to_string(),
        }
    }
    let mut o = format!("{{\"k\":\"decomp\",\"res\":\"ok\",\"pairs_hi\":{},\"pairs_lo\":{},\"bad\":[", total >> 16, total & 0xffff);
    for (i, (w, a, got, fw0, f0a)) in bad.iter().enumerate() {
        if i > 0 {
            o.push(',');
        }
        o += &format!("[{},{},{},{},{}]", w, a, got, fw0, f0a);
    }
    o += "]}";
    o
}

// ---------------------------------------------------------------------------------------------
// C14: text -> wire name, and read-back through a record

pub fn nametext_event(text: &[u8], zone: &[u8]) -> String {
    let z = if zone.is_empty() { None } else { Some(zone) };
    let r = guarded(|| dnssector::synth::r#gen::raw_name_from_str(text, z));
    let (res, wire) = match &r {
        Ok(Ok(w)) => ("ok", w.clone()),
        Ok(Err(_)) => ("err", vec![]),
        Err(()) => ("panic", vec![]),
    };
    let (mut rk, mut rb) = ("none", vec![]);
    if res == "ok" {
        // give the name to the answer record of a small valid packet and read it back
        let pkt: Vec<u8> = vec![
            0, 1, 0x80, 0, 0, 1, 0, 1, 0, 0, 0, 0, 1, b'q', 0, 0, 1, 0, 1, 1, b'o', 0, 0, 1, 0, 1, 0, 0, 0, 60, 0, 4, 1, 2, 3, 4,
        ];
        let out = guarded(|| {
            let mut pp = DNSSector::new(pkt).unwrap().parse().unwrap();
            let mut it = pp.into_iter_answer().unwrap();
            match it.set_raw_name(&wire) {
                Ok(()) => Some(it.name()),
                Err(_) => None,
            }
        });
        match out {
            Ok(Some(n)) => {
                rk = "ok";
                rb = n;
            }
            Ok(None) => rk = "err",
            Err(()) => rk = "panic",
        }
    }
    // the appending form must not depend on what the output vector already holds: same verdict, prefix untouched,
    // the same bytes appended
    let mut app = vec![];
    for k in [1usize, 2, 100, 250, 300] {
        let mut v: Vec<u8> = (0..k).map(|i| (i * 7 + 3) as u8).collect();
        let before = v.clone();
        let r2 = guarded(|| dnssector::synth::r#gen::copy_raw_name_from_str(&mut v, text, z).map(|_| ()));
        let ok = match (&r2, res) {
            (Ok(Ok(())), "ok") => v.len() >= k && v[..k] == before[..] && v[k..] == wire[..],
            (Ok(Err(_)), "err") => true,
            (Err(()), "panic") => true,
            _ => false,
        };
        app.push(ok);
    }
    format!(
        "{{\"k\":\"nametext\",\"text\":{},\"zone\":{},\"res\":\"{}\",\"wire\":{},\"rk\":\"{}\",\"rb\":{},\"app\":{}}}",
        jbytes(text),
        jbytes(zone),
        res,
        jbytes(&wire),
        rk,
        jbytes(&rb),
        app.iter().all(|x| *x)
    )
}

// ---------------------------------------------------------------------------------------------
// C13: record text -> wire record, then insertion into each record section of a valid packet

pub fn synth_event(v: &Value) -> String {
    let text_bytes = vbytes(&v["text"]);
    let text = String::from_utf8_lossy(&text_bytes).to_string();
    let r = guarded(|| dnssector::synth::r#gen::RR::from_string(&text));
    let (res, wire, err) = match &r {
        Ok(Ok(rr)) => ("ok", rr.packet.clone(), String::new()),
        Ok(Err(e)) => ("err", vec![], e.to_string()),
        Err(()) => ("panic", vec![], String::new()),
    };
    let mut ins = vec![];
    if res == "ok" {
        let base: Vec<u8> = vec![
            0, 9, 0x81, 0x80, 0, 1, 0, 1, 0, 1, 0, 1, 1, b'b', 2, b'e', b'x', 0, 0, 1, 0, 1, 0xc0, 12, 0, 1, 0, 1, 0, 0, 0, 5, 0, 4, 1, 2, 3, 4,
            0xc0, 14, 0, 2, 0, 1, 0, 0, 0, 5, 0, 2, 0xc0, 12, 0, 0, 41, 4, 208, 0, 0, 0, 0, 0, 0,
        ];
        for (sec, secn) in [(Section::Answer, "AN"), (Section::NameServers, "NS"), (Section::Additional, "AR")] {
            let b = base.clone();
            let txt = text.clone();
            let out = guarded(move || {
                let mut pp = DNSSector::new(b).unwrap().parse().unwrap();
                let r = pp.insert_rr_from_string(sec, &txt);
                (r.is_ok(), pp.packet().to_vec())
            });
            match out {
                Ok((ok, bytes)) => ins.push(format!("{{\"sec\":\"{}\",\"res\":\"{}\",\"bytes\":{}}}", secn, if ok { "ok" } else { "err" }, jbytes(&bytes))),
                Err(()) => ins.push(format!("{{\"sec\":\"{}\",\"res\":\"panic\",\"bytes\":[]}}", secn)),
            }
        }
    }
    format!(
        "{{\"k\":\"synth\",\"text\":{},\"expect\":{},\"rec\":{},\"res\":\"{}\",\"err\":{},\"wire\":{},\"ins\":[{}]}}",
        jbytes(&text_bytes),
        v["expect"],
        v["rec"],
        res,
        jstr(&err),
        jbytes(&wire),
        ins.join(",")
    )
}

// ---------------------------------------------------------------------------------------------
// C17: purity.  A pool of calls; histories execute them back to back on one thread or concurrently.

fn pure_call(c: &Value) -> String {
    let f = c["f"].as_str().unwrap_or("");
    let pkt = vbytes(&c["pkt"]);
    let y: Result<Result<Vec<u8>, Error>, ()> = match f {
        "parse" => guarded(|| DNSSector::new(pkt.clone()).and_then(|d| d.parse()).map(|p| {
            let mut v = p.packet().to_vec();
            v.extend(view_json(&p).as_bytes());
            v
        })),
        "uncompress" => guarded(|| Compress::uncompress(&pkt)),
        "compress" => guarded(|| Compress::compress(&pkt)),
        "rename" => guarded(|| {
            let mut pp = DNSSector::new(pkt.clone())?.parse()?;
            Renamer::rename_with_raw_names(&mut pp, &vbytes(&c["target"]), &vbytes(&c["source"]), c["suffix"].as_bool().unwrap_or(false))
        }),
        "rename_obj" => guarded(|| {
            let mut pp = DNSSector::new(pkt.clone())?.parse()?;
            pp.rename_with_raw_names(&vbytes(&c["target"]), &vbytes(&c["source"]), c["suffix"].as_bool().unwrap_or(false))?;
            Ok(pp.packet().to_vec())
        }),
        "synth" => guarded(|| dnssector::synth::r#gen::RR::from_string(c["text"].as_str().unwrap_or("")).map(|r| r.packet)),
        "name" => guarded(|| dnssector::synth::r#gen::raw_name_from_str(&vbytes(&c["text_bytes"]), None)),
        "empty" => guarded(|| Ok(ParsedPacket::empty().packet().to_vec())),
        "query" => guarded(|| dnssector::synth::r#gen::query(b"example.com", Type::A, Class::IN).map(|p| p.packet().to_vec())),
        _ => Ok(Err(DSError::InternalError("unknown").into())),
    };
    let f2 = if f == "query" { "empty" } else { f };
    format!("{{\"f\":\"{}\",\"x\":{},\"y\":{}}}", f2, c["x"], out3(&y))
}

pub fn purity_event(v: &Value) -> String {
    let calls: Vec<Value> = v["calls"].as_array().cloned().unwrap_or_default();
    let threads = vusize(&v["threads"]).max(1);
    if threads == 1 {
        // "rep": n runs the call n times back to back; logged once when every result is the same,
        // otherwise the first result and the first differing one
        let mut res: Vec<String> = vec![];
        for c in calls.iter() {
            let first = pure_call(c);
            let mut differing = None;
            for _ in 1..vusize(&c["rep"]).max(1) {
                let again = pure_call(c);
                if again != first && differing.is_none() {
                    differing = Some(again);
                }
            }
            res.push(first);
            if let Some(d) = differing {
                res.push(d);
            }
        }
        return format!("{{\"k\":\"purity\",\"threads\":1,\"calls\":[{}],\"per_thread\":[]}}", res.join(","));
    }
    let reps = vusize(&v["reps"]).max(1);
    let mut handles = vec![];
    let barrier = std::sync::Arc::new(std::sync::Barrier::new(threads));
    for t in 0..threads {
        let calls = calls.clone();
        let b = barrier.clone();
        handles.push(std::thread::spawn(move || {
            b.wait();
            let mut res = vec![];
            for r in 0..reps {
                // every thread walks the pool in its own rotation so that different inputs overlap in time
                for k in 0..calls.len() {
                    res.push(pure_call(&calls[(k + t * 3 + r) % calls.len()]));
                }
            }
            res
        }));
    }
    let mut per = vec![];
    for h in handles {
        match h.join() {
            Ok(r) => per.push(format!("[{}]", r.join(","))),
            Err(_) => per.push("[{\"f\":\"thread\",\"x\":0,\"y\":{\"k\":\"panic\",\"b\":[],\"e\":\"\"}}]".to_string()),
        }
    }
    format!("{{\"k\":\"purity\",\"threads\":{},\"calls\":[],\"per_thread\":[{}]}}", threads, per.join(","))
}

// ---------------------------------------------------------------------------------------------
// dispatcher for scenario lines {"do": ..., ...}

pub fn run_line(v: &Value) -> Option<String> {
    let pkt = vbytes(&v["pkt"]);
    match v["do"].as_str().unwrap_or("") {
        "parse" => Some(parse_event(&pkt, !v["nolog"].as_bool().unwrap_or(false))),
        "name" => {
            let off = match v["off"].as_i64() {
                Some(x) if x >= 0 => x as usize,
                _ => usize::MAX - vusize(&v["below_max"]),
            };
            let offj = if off >= (1 << 30) { "-1".to_string() } else { off.to_string() };
            Some(namecheck_event(&pkt, off, &offj))
        }
        "prims" => {
            let ops: Vec<(u8, usize)> = v["ops"]
                .as_array()
                .map(|a| {
                    a.iter()
                        .map(|o| {
                            let code = o[0].as_u64().unwrap_or(0) as u8;
                            let arg = match o[1].as_i64() {
                                Some(x) if x >= 0 => x as usize,
                                Some(x) => usize::MAX - ((-x - 1) as usize), // -1 => usize::MAX, -2 => MAX-1
                                None => 0,
                            };
                            (code, arg)
                        })
                        .collect()
                })
                .unwrap_or_default();
            Some(prims_event(&pkt, &ops))
        }
        "read" => read_event(&pkt),
        "hdr" => Some(header_event(v)),
        "purity" => Some(purity_event(v)),
        "threads" => Some(crate::cabi::run_schedule(v)),
        "synth" => Some(synth_event(v)),
        "walk" => crate::hist::run_walk(v),
        "nametext" => Some(nametext_event(&vbytes(&v["text"]), &vbytes(&v["zone"]))),
        "decomp" => Some(decomposition_sweep(vusize(&v["threads"]).max(1))),
        "uncompress" => {
            let bounds: Vec<usize> = if v["all_offsets"].as_bool().unwrap_or(false) {
                // every offset from the question to the end (non-boundary offsets are outside
                // C05's quantifier: the spec only looks at the entries that are boundaries)
                let mut b: Vec<usize> = (12..=pkt.len().min(12 + 700)).collect();
                if pkt.len() > 12 + 700 {
                    b.push(pkt.len());
                }
                b
            } else {
                v["bounds"].as_array().map(|a| a.iter().map(vusize).collect()).unwrap_or_default()
            };
            Some(uncompress_event(&pkt, &bounds))
        }
        "compress" => {
            if v["via_uncompress"].as_bool().unwrap_or(false) {
                // compress the decompressed form of an accepted packet; the event logs the actual input
                match guarded(|| Compress::uncompress(&pkt)) {
                    Ok(Ok(u)) => Some(compress_event(&u)),
                    _ => None,
                }
            } else {
                Some(compress_event(&pkt))
            }
        }
        "rename_menu" => rename_menu(&pkt, v["seed"].as_u64().unwrap_or(1), vusize(&v["n"]).max(1)),
        "rename" => rename_event(&pkt, &vbytes(&v["target"]), &vbytes(&v["source"]), v["suffix"].as_bool().unwrap_or(false)),
        other => Some(format!("{{\"k\":\"unknown\",\"do\":{}}}", jstr(other))),
    }
}
