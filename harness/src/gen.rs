//! Seeded input generators (scenario source S4 of DESIGN.md).  Nothing produced here is trusted:
//! every packet is judged by TLC through trace validation.

use crate::util::*;

fn be16(v: &mut Vec<u8>, x: u16) {
    v.extend(&x.to_be_bytes());
}

pub struct PktOpts {
    /// no length lies, no forbidden bytes, no stray bytes: high acceptance rate
    pub honest: bool,
    /// never emit a compression pointer
    pub pointer_free: bool,
    pub max_recs: usize,
}

/// emit a name; `starts` = offsets of earlier label starts usable as pointer targets
fn gen_name(r: &mut Rng, out: &mut Vec<u8>, starts: &mut Vec<usize>, allow_ptr: bool, o: &PktOpts) {
    let allow_ptr = allow_ptr && !o.pointer_free;
    let nl = r.below(4);
    for _ in 0..nl {
        if allow_ptr && !starts.is_empty() && r.chance(1, 3) {
            let t = if !o.honest && r.chance(1, 12) {
                r.below(out.len() + 4)
            } else {
                starts[r.below(starts.len())]
            };
            out.push(0xc0 | ((t >> 8) as u8 & 0x3f));
            out.push(t as u8);
            return;
        }
        starts.push(out.len());
        let ll = if !o.honest && r.chance(1, 40) {
            60 + r.below(6)
        } else if r.chance(1, 50) {
            40 + r.below(24)
        } else {
            1 + r.below(4)
        };
        out.push(ll as u8);
        for _ in 0..ll {
            out.push(if !o.honest && r.chance(1, 60) {
                [0u8, b'.', b'\\', 127, 31, 200][r.below(6)]
            } else if r.chance(1, 6) {
                b'A' + r.below(4) as u8
            } else {
                b'a' + r.below(4) as u8
            });
        }
    }
    if allow_ptr && !starts.is_empty() && r.chance(1, 3) {
        let t = starts[r.below(starts.len())];
        out.push(0xc0 | ((t >> 8) as u8 & 0x3f));
        out.push(t as u8);
    } else {
        out.push(0);
    }
}

/// Structured packet generator with lies: roughly a quarter of its packets are accepted and the
/// rest spread over all rejection clauses of the policy.
pub fn gen_packet(r: &mut Rng, o: &PktOpts) -> Vec<u8> {
    let lie_ok = !o.honest;
    let mut p = vec![r.next() as u8, r.next() as u8];
    let qr = r.chance(3, 4);
    let flags: u16 = (if qr { 0x8000 } else { 0 }) | (r.next() as u16 & 0x7fff);
    be16(&mut p, flags);
    let qd = if lie_ok && r.chance(1, 25) { r.below(3) as u16 } else { 1 };
    let mr = o.max_recs.max(1);
    let an = if qr || (lie_ok && r.chance(1, 10)) { r.below(mr + 1) as u16 } else { 0 };
    let ns = if qr || (lie_ok && r.chance(1, 10)) { r.below(mr) as u16 } else { 0 };
    let ar = r.below(mr + 1) as u16;
    be16(&mut p, qd);
    be16(&mut p, an);
    be16(&mut p, ns);
    be16(&mut p, ar);
    let mut starts = vec![];
    if !o.pointer_free && r.chance(1, 30) {
        starts.push(r.below(12));
    }
    for _ in 0..qd {
        let ap = r.chance(1, 10);
        gen_name(r, &mut p, &mut starts, ap, o);
        // one question in five asks for a type the library special-cases when it appears as a record
        be16(&mut p, if r.chance(1, 5) { [41u16, 2, 5, 6, 12, 39, 16, 0, 65535][r.below(9)] } else { [1u16, 28, 15, 255][r.below(4)] });
        be16(&mut p, if lie_ok && r.chance(1, 30) { 3 } else { 1 });
    }
    let mut opt_left = if r.chance(1, 2) {
        1
    } else if lie_ok && r.chance(1, 10) {
        2
    } else {
        0
    };
    for i in 0..(an + ns + ar) {
        let in_ar = i >= an + ns;
        let left_in_ar = (an + ns + ar - i) as usize;
        let mk_opt = (in_ar && opt_left > 0 && (r.chance(1, 2) || (o.honest && left_in_ar == 1 && r.chance(1, 2))))
            || (lie_ok && r.chance(1, 60));
        if mk_opt {
            if in_ar {
                opt_left -= 1;
            }
            if lie_ok && r.chance(1, 25) {
                gen_name(r, &mut p, &mut starts, true, o);
            } else {
                p.push(0);
            }
            be16(&mut p, 41);
            be16(&mut p, [512u16, 1232, 4096, 65535][r.below(4)]);
            p.push(if r.chance(1, 4) { r.next() as u8 } else { 0 });
            p.push(if r.chance(1, 4) { r.next() as u8 } else { 0 });
            p.push(if r.chance(1, 2) { 0x80 } else if r.chance(1, 4) { r.next() as u8 } else { 0 });
            p.push(if r.chance(1, 4) { r.next() as u8 } else { 0 });
            let mut rd = vec![];
            for _ in 0..r.below(3) {
                be16(&mut rd, r.below(16) as u16);
                let ol = r.below(6);
                let lie = if lie_ok && r.chance(1, 15) { r.below(3) as i32 - 1 } else { 0 };
                be16(&mut rd, (ol as i32 + lie).max(0) as u16);
                for _ in 0..ol {
                    rd.push(r.next() as u8);
                }
            }
            let lie = if lie_ok && r.chance(1, 15) { r.below(3) as i32 - 1 } else { 0 };
            be16(&mut p, (rd.len() as i32 + lie).max(0) as u16);
            p.extend(&rd);
            continue;
        }
        gen_name(r, &mut p, &mut starts, true, o);
        // one record in four has some other type (all of them opaque to the library): every code 3..=65
        // (MD, MF, MB, AFSDB, RT, SRV, ... which other software gives a name-bearing layout), meta types, private use
        let ty = if r.chance(1, 4) {
            let t = [3u16, 4, 7, 8, 9, 10, 11, 13, 14, 17, 18, 19, 20, 21, 22, 23, 24, 25, 26, 27, 29, 30, 31, 32, 33, 34, 35, 36, 37, 38, 40, 42, 43, 44, 45, 46,
                     47, 48, 49, 50, 51, 52, 53, 55, 56, 57, 58, 59, 60, 61, 62, 63, 64, 65, 99, 249, 250, 251, 252, 253, 254, 255, 256, 257, 258, 32768, 32769, 65280, 65535];
            t[r.below(t.len())]
        } else {
            [1u16, 28, 2, 5, 12, 15, 6, 39, 16, 999][r.below(10)]
        };
        be16(&mut p, ty);
        // classes: IN mostly; CH, HS, NONE, ANY, 0, the mDNS cache-flush form of IN, all ones
        be16(&mut p, if r.chance(1, 12) { [3u16, 4, 254, 255, 0, 0x8001, 0xffff][r.below(7)] } else { 1 });
        p.extend(&[if r.chance(1, 8) { r.next() as u8 } else { 0 }, 0, r.next() as u8, r.next() as u8]);
        let lenpos = p.len();
        be16(&mut p, 0);
        let rdstart = p.len();
        match ty {
            1 => {
                if r.chance(1, 4) {
                    // addresses with a meaning: unspecified, loopback, broadcast, multicast, private, link-local
                    let special: [[u8; 4]; 7] = [[0, 0, 0, 0], [127, 0, 0, 1], [255, 255, 255, 255], [224, 0, 0, 251], [10, 0, 0, 1], [169, 254, 1, 1], [192, 0, 2, 1]];
                    p.extend(&special[r.below(special.len())]);
                } else {
                    for _ in 0..(if lie_ok && r.chance(1, 12) { 3 + r.below(3) } else { 4 }) {
                        p.push(r.next() as u8);
                    }
                }
            }
            28 => {
                if r.chance(1, 3) {
                    // unspecified, loopback, IPv4-mapped, IPv4-compatible, NAT64, 6to4, Teredo, ULA, link-local, multicast, all ones
                    let mut a = [0u8; 16];
                    match r.below(11) {
                        0 => {}
                        1 => a[15] = 1,
                        2 => { a[10] = 0xff; a[11] = 0xff; a[12] = 192; a[13] = 0; a[14] = 2; a[15] = r.next() as u8; }
                        3 => { a[12] = 10; a[15] = 1; }
                        4 => { a[1] = 0x64; a[2] = 0xff; a[3] = 0x9b; a[12] = 192; a[15] = 33; }
                        5 => { a[0] = 0x20; a[1] = 0x02; a[2] = 192; a[4] = 2; a[5] = 1; }
                        6 => { a[0] = 0x20; a[1] = 0x01; a[15] = 9; }
                        7 => { a[0] = 0xfd; a[15] = 1; }
                        8 => { a[0] = 0xfe; a[1] = 0x80; a[15] = 1; }
                        9 => { a[0] = 0xff; a[1] = 0x02; a[15] = 0xfb; }
                        _ => a = [0xff; 16],
                    }
                    p.extend(&a);
                } else {
                    for _ in 0..(if lie_ok && r.chance(1, 12) { 15 + r.below(3) } else { 16 }) {
                        p.push(r.next() as u8);
                    }
                }
            }
            2 | 5 | 12 => {
                gen_name(r, &mut p, &mut starts, true, o);
                if lie_ok && r.chance(1, 20) {
                    p.push(0);
                }
            }
            15 => {
                be16(&mut p, r.next() as u16);
                gen_name(r, &mut p, &mut starts, true, o);
            }
            6 => {
                gen_name(r, &mut p, &mut starts, true, o);
                gen_name(r, &mut p, &mut starts, true, o);
                for _ in 0..(if lie_ok && r.chance(1, 12) { 19 + r.below(3) } else { 20 }) {
                    p.push(r.next() as u8);
                }
            }
            39 => {
                // DNAME targets are pointer-free and may hold any bytes
                let ap = lie_ok && r.chance(1, 8);
                let before = p.len();
                gen_name(r, &mut p, &mut starts, ap, o);
                if r.chance(1, 4) && p.len() > before + 2 {
                    p[before + 1] = [b'.', 0, 200, b'\\'][r.below(4)];
                }
                // a DNAME target is not a legal pointer target policy-wise for later names? it is:
                // the compressed reader only looks at bytes.  Keep its label starts.
            }
            _ => {
                // opaque data; often shaped like what other software would read as (a 16-bit value and) a name,
                // with or without a compression pointer: the library must carry it verbatim
                match r.below(5) {
                    0 => {
                        be16(&mut p, r.next() as u16);
                        p.extend(&[0xc0, 12]);
                    }
                    1 => p.extend(&[0xc0, 12]),
                    2 => {
                        be16(&mut p, r.next() as u16);
                        p.extend(&[1, b'z', 0]);
                    }
                    3 => {
                        be16(&mut p, r.next() as u16);
                    }
                    _ => {
                        for _ in 0..r.below(6) {
                            p.push(r.next() as u8);
                        }
                    }
                }
            }
        }
        let lie = if lie_ok && r.chance(1, 15) { r.below(3) as i32 - 1 } else { 0 };
        let rdl = ((p.len() - rdstart) as i32 + lie).max(0) as u16;
        p[lenpos] = (rdl >> 8) as u8;
        p[lenpos + 1] = rdl as u8;
    }
    if lie_ok && r.chance(1, 25) {
        p.push(r.next() as u8);
    }
    if lie_ok && r.chance(1, 25) {
        let n = r.below(p.len() + 1);
        p.truncate(n);
    }
    if lie_ok && r.chance(1, 10) {
        let i = r.below(p.len().max(1));
        if i < p.len() {
            p[i] = [0u8, 1, 0xc0, 0x0c, 0x29, 63, 64, 255][r.below(8)];
        }
    }
    p
}

/// Random byte strings: empty, shorter than a header, and up to beyond 65535 bytes, over an
/// alphabet biased towards bytes that mean something to the parser.
pub fn gen_random_bytes(r: &mut Rng) -> Vec<u8> {
    let len = match r.below(20) {
        0 => r.below(12),
        1 => 12,
        2 => 65530 + r.below(12),
        3 => 60000 + r.below(10001),
        4 => 8190 + r.below(5),
        5 | 6 => r.below(2000),
        _ => r.below(80),
    };
    let biased = r.chance(2, 3);
    let mut v = Vec::with_capacity(len);
    for _ in 0..len {
        v.push(if biased {
            [0u8, 0, 0, 1, 1, 2, 3, 0x0c, 0x29, 0x3f, 0x40, 0xc0, 0xc0, 0xc1, 0xff, b'a'][r.below(16)]
        } else {
            r.next() as u8
        });
    }
    if len >= 12 && r.chance(1, 2) {
        // plausible header: one question, small counts
        v[4] = 0;
        v[5] = 1;
        for i in 6..12 {
            v[i] = if i % 2 == 0 { 0 } else { r.below(3) as u8 };
        }
        if r.chance(1, 2) {
            v[2] |= 0x80;
        }
    }
    v
}

/// Havoc of a valid packet: bit flips, splices, truncations, count/length rewrites, pointer rewiring.
pub fn havoc(r: &mut Rng, seed: &[u8]) -> Vec<u8> {
    let mut p = seed.to_vec();
    let n = 1 + r.below(3);
    for _ in 0..n {
        if p.is_empty() {
            break;
        }
        match r.below(9) {
            0 => {
                let i = r.below(p.len());
                p[i] ^= 1 << r.below(8);
            }
            1 => {
                let i = r.below(p.len());
                p[i] = [0u8, 1, 0xc0, 0x0c, 0x29, 63, 64, 255, 0xc0 | (i >> 8) as u8][r.below(9)];
            }
            2 => {
                let n = r.below(p.len() + 1);
                p.truncate(n);
            }
            3 => {
                let i = r.below(p.len());
                let k = r.below(4);
                for _ in 0..k {
                    p.insert(i, r.next() as u8);
                }
            }
            4 => {
                let i = r.below(p.len());
                let k = (1 + r.below(4)).min(p.len() - i);
                p.drain(i..i + k);
            }
            5 => {
                // rewrite a count
                if p.len() >= 12 {
                    let c = 4 + 2 * r.below(4);
                    p[c] = 0;
                    p[c + 1] = [0u8, 1, 2, 3, 255][r.below(5)];
                    if r.chance(1, 10) {
                        p[c] = 255;
                    }
                }
            }
            6 => {
                // make a pointer somewhere
                if p.len() >= 14 {
                    let i = 12 + r.below(p.len() - 13);
                    let t = r.below(p.len());
                    p[i] = 0xc0 | (t >> 8) as u8;
                    p[i + 1] = t as u8;
                }
            }
            7 => {
                // splice a chunk of itself
                let a = r.below(p.len());
                let b = a + r.below(p.len() - a + 1);
                let chunk = p[a..b.min(a + 40)].to_vec();
                let i = r.below(p.len() + 1);
                for (k, c) in chunk.iter().enumerate() {
                    p.insert(i + k, *c);
                }
            }
            _ => {
                let i = r.below(p.len());
                p[i] = p[i].wrapping_add(1);
            }
        }
    }
    p
}

// ---------------------------------------------------------------------------------------------
// Boundary and adversarial families (both sides of every numeric limit of the policy).

pub fn header(id: u16, flags: u16, qd: u16, an: u16, ns: u16, ar: u16) -> Vec<u8> {
    let mut p = vec![];
    be16(&mut p, id);
    be16(&mut p, flags);
    be16(&mut p, qd);
    be16(&mut p, an);
    be16(&mut p, ns);
    be16(&mut p, ar);
    p
}
/// name made of `labels` labels of `ll` bytes each (no root)
pub fn labels(n: usize, ll: usize, c: u8) -> Vec<u8> {
    let mut v = vec![];
    for i in 0..n {
        v.push(ll as u8);
        for _ in 0..ll {
            v.push(c + (i % 3) as u8);
        }
    }
    v
}
pub fn question(p: &mut Vec<u8>, name: &[u8], ty: u16) {
    p.extend(name);
    be16(p, ty);
    be16(p, 1);
}
pub fn rr(p: &mut Vec<u8>, name: &[u8], ty: u16, ttl: u32, rdata: &[u8]) {
    p.extend(name);
    be16(p, ty);
    be16(p, 1);
    p.extend(&ttl.to_be_bytes());
    be16(p, rdata.len() as u16);
    p.extend(rdata);
}
pub fn ptr(to: usize) -> Vec<u8> {
    vec![0xc0 | ((to >> 8) as u8 & 0x3f), to as u8]
}

/// Boundary packets; every one is judged by the specification, so no expected verdict is attached.
pub fn boundary_packets() -> Vec<Vec<u8>> {
    let mut out = vec![];
    let q = [1u8, b'q', 0];
    // label lengths 60..66 in the question, in an owner and in NS data
    for ll in 60..=66usize {
        let mut nm = vec![ll as u8];
        nm.extend(vec![b'l'; ll]);
        nm.push(0);
        let mut p = header(1, 0x8000, 1, 0, 0, 0);
        question(&mut p, &nm, 1);
        out.push(p);
        let mut p = header(1, 0x8000, 1, 1, 0, 0);
        question(&mut p, &q, 1);
        rr(&mut p, &nm, 1, 5, &[1, 2, 3, 4]);
        out.push(p);
        let mut p = header(1, 0x8000, 1, 1, 0, 0);
        question(&mut p, &q, 2);
        rr(&mut p, &q, 2, 5, &nm);
        out.push(p);
    }
    // total name lengths 250..258: literal, and reached through a pointer from a short prefix
    for total in 250..=258usize {
        // labels of 49 chars (50 bytes) then a filler label
        let mut nm = vec![];
        let mut left = total - 1;
        while left >= 2 {
            let ll = (left - 1).min(49);
            nm.push(ll as u8);
            nm.extend(vec![b'n'; ll]);
            left -= ll + 1;
        }
        if left == 1 {
            // make the last label one byte longer
            let n = nm.len();
            let mut i = 0;
            let mut last = 0;
            while i < n {
                last = i;
                i += nm[i] as usize + 1;
            }
            nm[last] += 1;
            nm.push(b'n');
        }
        nm.push(0);
        let mut p = header(2, 0x8000, 1, 0, 0, 0);
        question(&mut p, &nm, 1);
        out.push(p);
        // name = 1-char label + pointer to a (total-2)-byte name placed in the question
        if nm.len() >= 5 {
            let mut inner = nm[..].to_vec();
            // drop two bytes from the first label to make room for the 2-byte prefix label
            let l0 = inner[0] as usize;
            if l0 > 3 {
                inner[0] -= 2;
                inner.drain(1..3);
                let mut p = header(2, 0x8000, 1, 1, 0, 0);
                question(&mut p, &inner, 1);
                let mut owner = vec![1, b'x'];
                owner.extend(ptr(12));
                rr(&mut p, &owner, 1, 1, &[9, 9, 9, 9]);
                out.push(p);
            }
        }
        // DNAME target (pointer-free reader) of that length
        let mut p = header(2, 0x8000, 1, 1, 0, 0);
        question(&mut p, &q, 39);
        rr(&mut p, &q, 39, 1, &nm);
        out.push(p);
    }
    // pointer chains of depth k = 0..20: record i's owner points at record i-1's owner
    for k in 0..=20usize {
        let mut p = header(3, 0x8000, 1, (k + 1) as u16, 0, 0);
        question(&mut p, &[1, b'c', 0], 1);
        let mut prev = 12;
        for i in 0..=k {
            let here = p.len();
            let owner = if i == 0 { vec![1, b'c', 0] } else { ptr(prev) };
            rr(&mut p, &owner, 1, 1, &[1, 1, 1, 1]);
            prev = here;
            let _ = i;
        }
        out.push(p);
        // the same with one label in front of every pointer (lengths accumulate)
        let mut p = header(3, 0x8000, 1, (k + 1) as u16, 0, 0);
        question(&mut p, &[1, b'c', 0], 1);
        let mut prev = 12;
        for i in 0..=k {
            let here = p.len();
            let mut owner = vec![1, b'a' + (i % 20) as u8];
            owner.extend(if i == 0 { vec![0] } else { ptr(prev) });
            rr(&mut p, &owner, 1, 1, &[1, 1, 1, 1]);
            prev = here;
        }
        out.push(p);
    }
    // names that start at offsets around 256 and 512 (pointer low byte 0x00 / 0xff, high bits set)
    for at in [254usize, 255, 256, 257, 511, 512, 513, 768] {
        for ty in [2u16, 5, 12, 15, 6, 1] {
            let mut p = header(16, 0x8180, 1, 3, 0, 0);
            question(&mut p, &[1, b'q', 0], ty);
            // opaque padding record so that the next owner name starts exactly at `at`
            let pad = at - (p.len() + 1 + 10);
            rr(&mut p, &[0], 16, 1, &vec![b'p'; pad]);
            assert_eq!(p.len(), at);
            rr(&mut p, &[4, b'h', b'o', b's', b't', 3, b'l', b'a', b'n', 0], 1, 2, &[7, 7, 7, 7]);
            let mut rd = vec![];
            if ty == 15 {
                rd.extend(&[0, 3]);
            }
            rd.extend(ptr(at));
            if ty == 6 {
                rd.extend(&[1, b'r']);
                rd.extend(ptr(at + 5));
                rd.extend(&[0u8; 20]);
            }
            if ty == 1 {
                rd = vec![1, 2, 3, 4];
            }
            rr(&mut p, &ptr(at + 5), ty, 3, &rd);
            out.push(p.clone());
            // SOA: both names in every combination of written out / ending with a pointer to `at` itself (whose low
            // byte is 0x00 at multiples of 256, like the closing byte of a name written out) / to a later label
            if ty == 6 {
                let cut = p.len() - (2 + 10 + rd.len());
                let forms: [Vec<u8>; 4] = [ptr(at), [vec![1, b'm'], ptr(at)].concat(), vec![1, b'w', 0], [vec![1, b'r'], ptr(at + 5)].concat()];
                for m in 0..4 {
                    for r in 0..4 {
                        let mut p2 = p[..cut].to_vec();
                        let mut rd2 = forms[m].clone();
                        rd2.extend(&forms[r]);
                        rd2.extend(&[0, 0, 0, 9, 0, 0, 1, 0, 0, 0, 0, 0, 0, 1, 0, 0, 0, 0, 0, 0]);
                        rr(&mut p2, &ptr(at + 5), 6, 3, &rd2);
                        // and a record behind it that refers to the names in the SOA data
                        let soa_data = cut + 2 + 10;
                        rr(&mut p2, &ptr(soa_data), 1, 4, &[4, 4, 4, 4]);
                        p2[7] = 4;
                        out.push(p2);
                    }
                }
            }
        }
    }
    // 16-bit length fields at the ends of their range: EDNS option lengths (first and second option, inside a
    // correctly sized OPT record, an oversized one and one that runs to the end of a 64 KiB packet), RDLENGTH of
    // opaque, name-bearing and OPT records, with and without the bytes actually being there
    for v in [0x7fffu16, 0x8000, 0xfff0, 0xfffb, 0xfffc, 0xfffd, 0xfffe, 0xffff] {
        let hi = (v >> 8) as u8;
        let lo = (v & 255) as u8;
        for lead in [vec![], vec![0u8, 10, 0, 2, 7, 7]] {
            let mut opts = lead.clone();
            opts.extend(&[0, 12, hi, lo]);
            for rdlen_kind in 0..3 {
                let mut p = header(17, 0x0000, 1, 0, 0, 1);
                question(&mut p, &[1, b'q', 0], 1);
                let body: Vec<u8> = match rdlen_kind {
                    0 => opts.clone(),                                              // the option overruns the OPT data
                    1 => { let mut b = opts.clone(); b.extend(vec![0u8; 40]); b }   // some bytes follow, not enough
                    _ => { let mut b = opts.clone(); b.extend(vec![0u8; (v as usize).min(65535 - 40 - opts.len())]); b } // as many as fit in 64 KiB
                };
                p.extend(&[0, 0, 41, 4, 208, 0, 0, 0, 0]);
                let rdl = if rdlen_kind == 0 { opts.len() } else { body.len().min(65535) };
                p.extend(&[(rdl >> 8) as u8, (rdl & 255) as u8]);
                p.extend(&body);
                out.push(p);
            }
        }
        for ty in [16u16, 2, 6, 41, 999] {
            for present in [false, true] {
                let mut p = header(18, 0x8180, 1, if ty == 41 { 0 } else { 1 }, 0, if ty == 41 { 1 } else { 0 });
                question(&mut p, &[1, b'q', 0], 1);
                p.extend(&[0]);
                p.extend(&[(ty >> 8) as u8, (ty & 255) as u8, 0, 1, 0, 0, 0, 0, hi, lo]);
                if present {
                    p.extend(vec![1u8; (v as usize).min(65535 - p.len())]);
                } else {
                    p.extend(&[1, b'x', 0, 0, 0]);
                }
                out.push(p);
            }
        }
    }
    // RDLENGTH sweep: for every type whose data has a shape, data made of long names, and every declared length from
    // 0 to a little more than the true one, with the bytes present (followed by another record) and cut off
    {
        let n1: Vec<u8> = { let mut v = vec![20u8]; v.extend(vec![b'm'; 20]); v.extend(&[8, b'e', b'x', b'a', b'm', b'p', b'l', b'e', b's', 0]); v };   // 31 bytes
        let n2: Vec<u8> = { let mut v = vec![25u8]; v.extend(vec![b'r'; 25]); v.extend(&[3, b'o', b'r', b'g', 0]); v };                                    // 31 bytes
        let shapes: Vec<(u16, Vec<u8>)> = vec![
            (2, n1.clone()), (5, n2.clone()), (12, n1.clone()), (39, n1.clone()),
            (15, { let mut v = vec![0u8, 10]; v.extend(&n1); v }),
            (6, { let mut v = n1.clone(); v.extend(&n2); v.extend(&[0u8; 20]); v }),
            (41, vec![0, 10, 0, 8, 1, 2, 3, 4, 5, 6, 7, 8, 0, 12, 0, 0]),
            (16, { let mut v = vec![30u8]; v.extend(vec![b't'; 30]); v }),
        ];
        for (ty, rd) in shapes {
            for declared in 0..=(rd.len() + 3) {
                for cut in [false, true] {
                    let (an, ar) = if ty == 41 { (1u16, 1u16) } else { (2u16, 0u16) };
                    let mut p = header(20, 0x8180, 1, an, 0, ar);
                    question(&mut p, &[1, b'q', 0], 1);
                    if ty == 41 {
                        rr(&mut p, &[1, b'q', 0], 1, 1, &[9, 9, 9, 9]);
                    }
                    p.extend(if ty == 41 { vec![0u8] } else { vec![1, b'o', 0] });
                    p.extend(&[(ty >> 8) as u8, (ty & 255) as u8, 0, 1, 0, 0, 0, 0, (declared >> 8) as u8, (declared & 255) as u8]);
                    p.extend(&rd);
                    if cut {
                        let keep = p.len() - rd.len() + declared.min(rd.len());
                        p.truncate(keep);
                    } else if ty != 41 {
                        rr(&mut p, &[1, b'z', 0], 1, 1, &[8, 8, 8, 8]);
                    }
                    out.push(p);
                }
            }
        }
    }
    // pointers into the middle of a label whose bytes happen to read as labels themselves: a question label holding
    // a printable byte v (0x20, 0x30, 0x3f) followed by exactly v more bytes; owners and data names that are bare
    // pointers to that byte, to the label start and to the following label; the question name ends in the root or in
    // a pointer into the header (id 0x0161 and a zero flag word spell "a.")
    for v in [0x20usize, 0x30, 0x3f] {
        for header_tail in [false, true] {
            for prefix in [1usize, 3] {
                if prefix + 1 + v > 63 {
                    continue;
                }
                let mut p = if header_tail { vec![0x01, 0x61, 0x00, 0x00, 0, 1, 0, 0, 0, 0, 0, 0] } else { header(26, 0x8180, 1, 0, 0, 0) };
                let mut q = vec![(prefix + 1 + v) as u8];
                q.extend(vec![b'p'; prefix]);
                q.push(v as u8);
                q.extend(vec![b'b'; v]);
                q.extend(&[2, b'e', b'x']);
                if header_tail {
                    q.extend(&[0xc0, 0x00]);
                } else {
                    q.push(0);
                }
                let inner = 12 + 1 + prefix;          // offset of the byte v
                let next_label = 12 + 1 + prefix + 1 + v;
                p.extend(&q);
                p.extend(&[0, 1, 0, 1]);
                let mut count = 0u16;
                for target in [inner, 12, next_label] {
                    rr(&mut p, &ptr(target), 1, 1, &[1, 1, 1, 1]);
                    rr(&mut p, &[1, b'w', 0xc0, target as u8], 2, 2, &ptr(target));
                    rr(&mut p, &ptr(target), 15, 3, &[0, 9, 0xc0, target as u8]);
                    count += 3;
                }
                if header_tail {
                    p[10] = (count >> 8) as u8;
                    p[11] = count as u8;
                } else {
                    p[6] = (count >> 8) as u8;
                    p[7] = count as u8;
                }
                out.push(p);
            }
        }
    }
    // the same trick one step further: the bytes read from the middle of the label run over the end of the label and
    // take the first byte of the question's closing pointer as their last character; the pointer's second byte (0x00)
    // then reads as the root
    for v in [0x20usize, 0x30, 0x3f] {
        for prefix in [1usize, 3] {
            if prefix + v > 63 {
                continue;
            }
            let mut p = vec![0x01, 0x61, 0x00, 0x00, 0, 1, 0, 0, 0, 0, 0, 0];
            let mut q = vec![(prefix + v) as u8];
            q.extend(vec![b'p'; prefix]);
            q.push(v as u8);
            q.extend(vec![b'b'; v - 1]);
            q.extend(&[0xc0, 0x00]);
            let inner = 12 + 1 + prefix;
            p.extend(&q);
            p.extend(&[0, 1, 0, 1]);
            rr(&mut p, &ptr(inner), 1, 1, &[1, 1, 1, 1]);
            rr(&mut p, &[1, b'w', 0xc0, inner as u8], 2, 2, &ptr(inner));
            rr(&mut p, &ptr(12), 1, 3, &[2, 2, 2, 2]);
            p[10] = 0;
            p[11] = 3;
            out.push(p);
        }
    }
    // a name made of labels filling exactly T bytes (T = 240..258), then the first byte of a pointer as the last byte
    // of the buffer, a complete pointer, and a pointer followed by the question's fixed part
    for total in 240usize..=258 {
        let mut nm = vec![];
        let mut left = total;
        while left > 0 {
            let ll = (left - 1).min(63);
            if ll == 0 {
                break;
            }
            nm.push(ll as u8);
            nm.extend(vec![b'k'; ll]);
            left -= ll + 1;
        }
        for tail in [vec![0xc0u8], vec![0xc0, 0x00], vec![0xc0, 0x00, 0, 1, 0, 1], vec![0xc0, 12, 0, 1, 0, 1]] {
            let mut p = header(21, 0x0000, 1, 0, 0, 0);
            p.extend(&nm);
            p.extend(&tail);
            out.push(p);
        }
    }
    for w in wide_packets(false) {
        out.push(w);
    }
    for w in wide_packets(true) {
        out.push(w);
    }
    // pointer peculiarities
    let base = {
        let mut p = header(4, 0x8000, 1, 1, 0, 0);
        question(&mut p, &[2, b'a', b'b', 1, b'c', 0], 1);
        p
    };
    let specials: Vec<(String, Vec<u8>)> = vec![
        ("self".into(), ptr(22)),
        ("forward".into(), ptr(40)),
        ("to-root".into(), ptr(17)),
        ("mid-label".into(), ptr(13)),
        ("to-label2".into(), ptr(15)),
        ("to-start".into(), ptr(12)),
        ("past-end".into(), ptr(16000)),
        ("truncated-pointer".into(), vec![0xc0]),
    ];
    for (_, owner) in &specials {
        let mut p = base.clone();
        rr(&mut p, owner, 1, 1, &[1, 2, 3, 4]);
        out.push(p);
    }
    for o in 0..12usize {
        // pointers into the header: whether accepted depends on the header bytes only
        for idb in [0u16, 0x0161, 0x0300, 0x3f00] {
            let mut p = header(idb, 0x8000 | 0x0100, 1, 1, 0, 0);
            question(&mut p, &[1, b'h', 0], 1);
            rr(&mut p, &ptr(o), 1, 1, &[1, 2, 3, 4]);
            out.push(p);
        }
    }
    // question written through a pointer into the header (id bytes = label "a")
    {
        let mut p = header(0x0161, 0x0000, 1, 0, 0, 0);
        // header bytes 0..: 01 'a' 00 => name "a." at offset 0, flags high byte 0 is the root
        p.extend(ptr(0));
        be16(&mut p, 1);
        be16(&mut p, 1);
        out.push(p);
    }
    // OPT shapes
    for (ar, recs) in [
        (1u16, vec![0usize]),          // OPT only
        (2, vec![0, 1]),               // OPT first
        (2, vec![1, 0]),               // OPT last
        (3, vec![1, 0, 1]),            // OPT in the middle
        (2, vec![0, 0]),               // two OPT
    ] {
        let mut p = header(5, 0x8000, 1, 0, 0, ar);
        question(&mut p, &q, 1);
        for k in recs {
            if k == 0 {
                rr(&mut p, &[0], 41, 0x0100_8000, &[0, 10, 0, 2, 7, 7, 0, 11, 0, 0]);
            } else {
                rr(&mut p, &[1, b'x', 0], 1, 7, &[4, 3, 2, 1]);
            }
        }
        out.push(p);
    }
    for lie in [-1i32, 1] {
        // option length lies / OPT length lies
        let mut p = header(5, 0x8000, 1, 0, 0, 1);
        question(&mut p, &q, 1);
        let mut rd = vec![0, 10, 0, (2 + lie) as u8, 7, 7];
        rr(&mut p, &[0], 41, 0, &rd);
        out.push(p);
        rd = vec![0, 10, 0, 2, 7, 7];
        let mut p = header(5, 0x8000, 1, 0, 0, 1);
        question(&mut p, &q, 1);
        rr(&mut p, &[0], 41, 0, &rd);
        let n = p.len();
        p[n - 7] = (6 + lie) as u8;
        out.push(p);
    }
    {
        // OPT in the answer section, OPT with a non-root owner
        let mut p = header(5, 0x8000, 1, 1, 0, 0);
        question(&mut p, &q, 1);
        rr(&mut p, &[0], 41, 0, &[]);
        out.push(p);
        let mut p = header(5, 0x8000, 1, 0, 0, 1);
        question(&mut p, &q, 1);
        rr(&mut p, &[1, b'o', 0], 41, 0, &[]);
        out.push(p);
        let mut p = header(5, 0x8000, 1, 0, 0, 1);
        question(&mut p, &q, 1);
        rr(&mut p, &ptr(14), 41, 0, &[]);
        out.push(p);
    }
    // query with answer / authority; class other than IN; counts 0 / 2
    for (flags, an, ns) in [(0u16, 1u16, 0u16), (0, 0, 1), (0x8000, 1, 1)] {
        let mut p = header(6, flags, 1, an, ns, 0);
        question(&mut p, &q, 1);
        for _ in 0..(an + ns) {
            rr(&mut p, &q, 1, 1, &[1, 2, 3, 4]);
        }
        out.push(p);
    }
    for qd in [0u16, 2] {
        let mut p = header(6, 0x8000, qd, 0, 0, 0);
        for _ in 0..qd {
            question(&mut p, &q, 1);
        }
        out.push(p);
    }
    // type-specific sizes
    for (ty, sizes) in [(1u16, vec![0usize, 3, 4, 5]), (28, vec![0, 15, 16, 17])] {
        for s in sizes {
            let mut p = header(7, 0x8000, 1, 1, 0, 0);
            question(&mut p, &q, ty);
            rr(&mut p, &q, ty, 1, &vec![7; s]);
            out.push(p);
        }
    }
    // name-bearing data followed by slack / cut short
    for ty in [2u16, 5, 12, 15, 6, 39] {
        for slack in [-1i32, 0, 1] {
            let mut rd = vec![];
            if ty == 15 {
                rd.extend(&[0, 10]);
            }
            rd.extend(&[1, b'm', 0]);
            if ty == 6 {
                rd.extend(&[1, b'r', 0]);
                rd.extend(&[0u8; 20]);
            }
            if slack == 1 {
                rd.push(0);
            }
            let mut p = header(8, 0x8000, 1, 1, 0, 0);
            question(&mut p, &q, ty);
            rr(&mut p, &q, ty, 1, &rd);
            if slack == -1 {
                // declare one byte less than present (the record then ends inside its name)
                let n = p.len();
                let l = rd.len();
                p[n - l - 1] = (l - 1) as u8;
            }
            out.push(p);
        }
    }
    out
}

/// Accepted packets with "wide" values: more than 255 records in a section, data longer than 255 bytes,
/// type / class / TTL / preference values with their high bytes set, names of exactly 255 bytes.
pub fn wide_packets(pointer_free: bool) -> Vec<Vec<u8>> {
    let mut out = vec![];
    let qn = [1u8, b'w', 2, b'i', b'd', 0];
    let own = |p: &mut Vec<u8>| -> Vec<u8> {
        let _ = p;
        if pointer_free { qn.to_vec() } else { ptr(12) }
    };
    // 300 answers, 260 authority records, 270 additional records with OPT in the middle
    {
        let mut p = header(40, 0x8180, 1, 300, 260, 271);
        question(&mut p, &qn, 255);
        for i in 0..300u32 {
            let o = own(&mut p);
            rr(&mut p, &o, 1, 0x0100_0000 | i, &[10, (i >> 8) as u8, i as u8, 1]);
        }
        for i in 0..260u32 {
            let o = own(&mut p);
            let mut rd = vec![1, b'n'];
            rd.extend(if pointer_free { qn.to_vec() } else { ptr(12) });
            rr(&mut p, &o, 2, i, &rd);
        }
        for i in 0..271u32 {
            if i == 135 {
                rr(&mut p, &[0], 41, 0x00ab_8000, &[0, 10, 0, 1, 9]);
            } else {
                let o = own(&mut p);
                rr(&mut p, &o, 28, i, &[0u8; 16]);
            }
        }
        out.push(p);
    }
    // data longer than 255 bytes in every opaque flavour, classes / types / TTLs with high bytes set
    {
        let mut p = header(41, 0x8180, 1, 4, 1, 2);
        question(&mut p, &qn, 0x0101);
        let o = own(&mut p);
        rr(&mut p, &o, 16, 0xffff_ffff, &vec![200u8; 300]);
        let o = own(&mut p);
        rr(&mut p, &o, 0xff01, 0x8000_0000, &vec![7u8; 700]);
        let o = own(&mut p);
        let mut mx = vec![0xab, 0xcd];
        mx.extend(if pointer_free { qn.to_vec() } else { ptr(12) });
        rr(&mut p, &o, 15, 0x0102_0304, &mx);
        // a record of another class
        p.extend(&own(&mut Vec::new()));
        p.extend(&[0, 1, 0x01, 0x00, 0, 0, 0, 5, 0, 4, 1, 2, 3, 4]);
        let o = own(&mut p);
        let mut soa = if pointer_free { qn.to_vec() } else { ptr(12) };
        soa.extend(&[2, b'h', b'm']);
        soa.extend(if pointer_free { qn.to_vec() } else { ptr(14) });
        soa.extend(&[0xff; 20]);
        rr(&mut p, &o, 6, 0x00ff_ff00, &soa);
        rr(&mut p, &[0], 41, 0xff7f_ffff, &{
            let mut rd = vec![0xff, 0xfe, 0x01, 0x2c];
            rd.extend(vec![3u8; 300]);
            rd
        });
        let o = own(&mut p);
        rr(&mut p, &o, 1, 1, &[1, 1, 1, 1]);
        out.push(p);
    }
    // names of exactly 255 bytes: question, owner (literal or a prefix + pointer), NS data
    {
        let mut long = vec![];
        for c in [b'p', b'q', b'r'] {
            long.push(63);
            long.extend(vec![c; 63]);
        }
        long.push(61);
        long.extend(vec![b's'; 61]);
        long.push(0);
        assert_eq!(long.len(), 255);
        let mut p = header(42, 0x8180, 1, 2, 0, 0);
        question(&mut p, &long, 1);
        let o = if pointer_free { long.clone() } else { ptr(12) };
        rr(&mut p, &o, 2, 9, &o);
        // 64-byte prefix replaced: first label shortened so that prefix label + pointer still gives 255
        let mut o2 = vec![63u8];
        o2.extend(vec![b'P'; 63]);
        o2.extend(if pointer_free { long[64..].to_vec() } else { ptr(12 + 64) });
        rr(&mut p, &o2, 5, 9, &o2);
        out.push(p);
    }
    out
}

/// Big packets: sizes around the limits that matter to callers (8192, 16384, 65535).
pub fn big_packets() -> Vec<Vec<u8>> {
    let mut out = vec![];
    for target in [8191usize, 8192, 8193, 16383, 16384, 16385, 65535, 65536, 70000] {
        // TXT-like opaque records of 200 bytes, last one sized to hit the target exactly
        let mut p = header(9, 0x8000, 1, 0, 0, 0);
        question(&mut p, &[1, b'b', 0], 16);
        let mut n = 0u16;
        while p.len() < target {
            let left = target - p.len();
            let body = if left >= 13 + 200 + 13 { 200 } else if left >= 13 { left - 13 } else { break };
            rr(&mut p, &[1, b'b', 0], 16, 1, &vec![b't'; body]);
            n += 1;
        }
        while p.len() < target {
            p.push(0); // cannot be expressed as a record: trailing bytes (rejected)
        }
        p[6] = (n >> 8) as u8;
        p[7] = n as u8;
        out.push(p);
    }
    // many tiny records: 65535 answers cannot fit (11 bytes each) but a lying count can say so
    for (count, present) in [(5000u16, 5000usize), (65535, 5000), (5000, 4999)] {
        let mut p = header(9, 0x8000, 1, count, 0, 0);
        question(&mut p, &[0], 1);
        for _ in 0..present {
            rr(&mut p, &[0], 999, 0, &[]);
        }
        out.push(p);
    }
    out
}

/// Packets longer than 64 KiB (as a TCP peer or a caller can hand over) whose last records start around offset 65536:
/// names there use pointers to the question, to an earlier owner, and literal labels.
pub fn beyond_64k_packets() -> Vec<Vec<u8>> {
    let mut out = vec![];
    for at in [65520usize, 65534, 65535, 65536, 65537, 65540, 65548, 65549, 65550, 65566, 66000] {
        let mut p = header(25, 0x8180, 1, 0, 0, 0);
        question(&mut p, &[1, b'q', 2, b'e', b'x', 0], 1);
        let mut count = 0u16;
        // opaque fillers of at most 60 000 bytes each, the last one sized so that the next record starts at `at`
        while p.len() + 13 + 60000 + 13 < at {
            rr(&mut p, &[1, b'f', 0], 16, 1, &vec![b'x'; 60000]);
            count += 1;
        }
        let body = at - p.len() - 13;
        rr(&mut p, &[1, b'f', 0], 16, 1, &vec![b'y'; body]);
        count += 1;
        assert_eq!(p.len(), at);
        let first = p.len();
        rr(&mut p, &ptr(12), 1, 5, &[1, 2, 3, 4]);                       // owner: pointer to the question
        rr(&mut p, &[1, b'w', 0xc0, 14], 2, 6, &ptr(12));                // owner: label + pointer, data: pointer
        rr(&mut p, &[3, b'l', b'i', b't', 0], 15, 7, &[0, 1, 0xc0, 12]); // literal owner, MX exchange by pointer
        count += 3;
        let _ = first;
        p[6] = (count >> 8) as u8;
        p[7] = count as u8;
        out.push(p);
    }
    out
}

/// C18: families built to maximise pointer following and option walking.
pub fn adversarial_packets(r: &mut Rng, scale: usize) -> Vec<Vec<u8>> {
    let mut out = vec![];
    let maximal = |c: u8| -> Vec<u8> {
        // 127 one-byte labels + root = 255 bytes
        let mut v = vec![];
        for _ in 0..127 {
            v.push(1);
            v.push(c);
        }
        v.push(0);
        v
    };
    for depth in [1usize, 8, 15, 16, 17, 20, 40] {
        for nrec in [scale / 10 + 1, scale] {
            // a maximal name in the question, then a ladder of `depth-1` pointer-only names, then
            // `nrec` NS records whose owner and target both start at the top of the ladder
            let mut p = header(10, 0x8000, 1, 0, 0, 0);
            // the first label of the question is kept short so that pointers add to a full name
            question(&mut p, &maximal(b'm'), 2);
            let mut tops = vec![12usize];
            let mut count = 0u16;
            for _ in 1..depth {
                // an NS record whose data is just a pointer to the previous top
                let here = p.len();
                rr(&mut p, &ptr(*tops.last().unwrap()), 2, 1, &ptr(*tops.last().unwrap()));
                tops.push(here);
                count += 1;
            }
            let top = *tops.last().unwrap();
            for _ in 0..nrec {
                if p.len() + 14 > 65535 {
                    break;
                }
                rr(&mut p, &ptr(top), 2, 1, &ptr(top));
                count += 1;
            }
            p[6] = (count >> 8) as u8;
            p[7] = count as u8;
            out.push(p);
        }
    }
    // chains through *data* names: the data of record i (NS / CNAME / PTR) is a bare pointer to the data name of
    // record i - 1, depth 15 .. 40, then records whose owner starts at the top of the chain
    for ty in [2u16, 5, 12, 2 | 0x100, 5 | 0x100, 12 | 0x100] {
        let data_readers_only = ty & 0x100 != 0;
        let ty = ty & 0xff;
        for depth in [15usize, 16, 17, 18, 20, 40] {
            let nrec = (scale / 10 + 1).min(300);
            let mut p = header(27, 0x8180, 1, 0, 0, 0);
            question(&mut p, &[1, b'c', 0], ty);
            let mut count = 0u16;
            // record 0: literal data name
            let mut top = p.len() + 2 + 10;
            rr(&mut p, &ptr(12), ty, 1, &[1, b't', 0]);
            count += 1;
            for _ in 1..depth {
                let here = p.len() + 2 + 10;
                rr(&mut p, &ptr(12), ty, 1, &ptr(top));
                top = here;
                count += 1;
            }
            for k in 0..nrec {
                // readers of the chain: by owner name, and by data name again
                if data_readers_only || k % 2 == 0 {
                    rr(&mut p, &ptr(12), ty, 1, &ptr(top));
                } else {
                    rr(&mut p, &ptr(top), 1, 1, &[1, 1, 1, 1]);
                }
                count += 1;
            }
            p[6] = (count >> 8) as u8;
            p[7] = count as u8;
            out.push(p);
        }
    }
    // uncapped ladder: record k follows k pointers
    for n in [20usize, scale.min(4000)] {
        let mut p = header(11, 0x8000, 1, n as u16, 0, 0);
        question(&mut p, &[1, b'l', 0], 1);
        let mut prev = 12;
        for _ in 0..n {
            let here = p.len();
            rr(&mut p, &ptr(prev), 1, 1, &[1, 1, 1, 1]);
            prev = here;
        }
        out.push(p);
    }
    // SOA records with three maximal chains
    {
        let mut p = header(12, 0x8000, 1, 0, 0, 0);
        question(&mut p, &maximal(b's'), 6);
        let mut count = 0u16;
        let mut top = 12;
        for _ in 1..16 {
            let here = p.len();
            rr(&mut p, &ptr(top), 2, 1, &ptr(top));
            top = here;
            count += 1;
        }
        for _ in 0..scale.min(1500) {
            let mut rd = ptr(top);
            rd.extend(ptr(top));
            rd.extend(&[0u8; 20]);
            rr(&mut p, &ptr(top), 6, 1, &rd);
            count += 1;
        }
        p[6] = (count >> 8) as u8;
        p[7] = count as u8;
        out.push(p);
    }
    // dense option lists
    for nopt in [0usize, 1, 100, (scale * 4).min(16000)] {
        let mut p = header(13, 0x8000, 1, 0, 0, 1);
        question(&mut p, &[0], 1);
        let mut rd = vec![];
        for i in 0..nopt {
            rd.extend(&[(i >> 8) as u8, i as u8, 0, 0]);
        }
        rr(&mut p, &[0], 41, 0, &rd);
        out.push(p);
    }
    // long runs of short labels in bytes that are never validated as a name (opaque data), with many
    // records whose names point at the run: a correct walker gives up after 255 name bytes
    for (run, nrec) in [(130usize, 50usize), (1000, scale.min(800)), (20000, scale.min(1500))] {
        let mut rd = vec![];
        for _ in 0..run {
            rd.extend(&[1, b'x']);
        }
        rd.push(0);
        let mut p = header(16, 0x8180, 1, (1 + nrec) as u16, 0, 0);
        question(&mut p, &[1, b'r', 0], 16);
        let at = p.len() + 3 + 10;
        rr(&mut p, &[1, b'r', 0], 16, 1, &rd);
        for i in 0..nrec {
            // pointers to the start of the run and to places inside it
            rr(&mut p, &ptr((at + 2 * (i % 7)).min(16383)), 1, 1, &[1, 1, 1, 1]);
        }
        out.push(p);
    }
    // mixed ladders inside opaque data: every rung is a 1-byte label followed by a chain of `k` pointers down to
    // the previous rung, so a walk alternates labels and runs of pointers; many small records start at the top.
    // (A correct walker charges every pointer of the whole walk to one budget and stops at the 17th.)
    for k in [1usize, 2, 8, 15, 16] {
        for rungs in [3usize, 20, 60, 126] {
            let nrec = scale.min(1200);
            let mut rd: Vec<u8> = vec![1, b'z', 0];                 // bottom: the name "z."
            let mut p = header(19, 0x8180, 1, (1 + nrec) as u16, 0, 0);
            question(&mut p, &[1, b'q', 0], 16);
            let base = p.len() + 3 + 10;                            // offset of the TXT data in the packet
            let mut below = base;                                   // where the rung below starts
            for _ in 0..rungs {
                // k - 1 pointer-only hops, each pointing at the previous one, the lowest at `below`
                let mut target = below;
                for _ in 1..k {
                    let here = base + rd.len();
                    rd.extend(ptr(target));
                    target = here;
                }
                let here = base + rd.len();
                rd.extend(&[1, b'y']);
                rd.extend(ptr(target));
                below = here;
                if base + rd.len() > 16000 {
                    break;
                }
            }
            rr(&mut p, &[1, b'q', 0], 16, 1, &rd);
            for _ in 0..nrec {
                rr(&mut p, &ptr(below), 1, 1, &[1, 1, 1, 1]);
            }
            out.push(p);
        }
    }
    // pure pointer chains of depth d inside opaque data (never validated as names), depths around 16 and around the
    // powers of two a narrow counter would wrap at, with records whose owner starts at the top
    for d in [17usize, 100, 255, 256, 257, 260, 272, 273, 511, 512, 513, 528, 1024, 1030, 4095, 4096, 4100] {
        let nrec = scale.min(600);
        let mut rd: Vec<u8> = vec![1, b'z', 0];
        let mut p = header(24, 0x8180, 1, (1 + nrec) as u16, 0, 0);
        question(&mut p, &[1, b'q', 0], 16);
        let base = p.len() + 3 + 10;
        let mut target = base;
        for _ in 0..d {
            let here = base + rd.len();
            if here + 2 > 16383 {
                break;
            }
            rd.extend(ptr(target));
            target = here;
        }
        rr(&mut p, &[1, b'q', 0], 16, 1, &rd);
        for _ in 0..nrec {
            rr(&mut p, &ptr(target), 1, 1, &[1, 1, 1, 1]);
        }
        out.push(p);
    }
    // loops
    for k in [1usize, 2, 5] {
        let mut p = header(14, 0x8000, 1, k as u16, 0, 0);
        question(&mut p, &[1, b'o', 0], 1);
        let first = p.len();
        let reclen = 2 + 10 + 4;
        for i in 0..k {
            let target = if i == 0 { first + (k - 1) * reclen } else { first + (i - 1) * reclen };
            rr(&mut p, &ptr(target), 1, 1, &[1, 1, 1, 1]);
        }
        out.push(p);
    }
    // random recombinations of the above ideas
    for _ in 0..scale.min(200) {
        let mut p = header(15, 0x8000, 1, 0, 0, 0);
        let ll = 1 + r.below(3);
        let nl = (255 - 1) / (ll + 1);
        question(&mut p, &{
            let mut v = labels(nl, ll, b'r');
            v.push(0);
            v
        }, 2);
        let mut tops = vec![12usize];
        let mut count = 0u16;
        for _ in 0..r.below(40) + 1 {
            let t = *r.pick(&tops);
            let here = p.len();
            let ty = *r.pick(&[2u16, 5, 12, 15, 6]);
            let mut rd = vec![];
            if ty == 15 {
                rd.extend(&[0, 1]);
            }
            rd.extend(ptr(*r.pick(&tops)));
            if ty == 6 {
                rd.extend(ptr(*r.pick(&tops)));
                rd.extend(&[0u8; 20]);
            }
            rr(&mut p, &ptr(t), ty, 1, &rd);
            if r.chance(1, 2) {
                tops.push(here);
            }
            count += 1;
        }
        p[6] = (count >> 8) as u8;
        p[7] = count as u8;
        out.push(p);
    }
    out
}

/// C06: pointer-free packets that stress the suffix dictionary (nesting deeper than 16, more than
/// 32 distinct suffixes, suffixes longer than 127 bytes, names beyond offset 16383, mixed case).
pub fn compress_families() -> Vec<Vec<u8>> {
    let mut out = vec![];
    let lab = |i: usize| -> Vec<u8> { vec![2, b'a' + (i % 26) as u8, b'a' + ((i / 26) % 26) as u8] };
    // nested suffixes: name k = label_k . name_{k-1}
    for d in [1usize, 2, 3, 8, 15, 16, 17, 18, 24, 40] {
        let mut p = header(20, 0x8000, 1, d as u16, 0, 0);
        question(&mut p, &[1, b'n', 0], 1);
        let mut cur: Vec<u8> = vec![1, b'n', 0];
        for k in 0..d {
            let mut nm = lab(k);
            nm.extend(&cur);
            cur = nm;
            rr(&mut p, &cur, 1, 1, &[1, 1, 1, 1]);
        }
        out.push(p);
        // the same, each name twice (every second one can be a whole-name pointer)
        let mut p = header(20, 0x8000, 1, (2 * d) as u16, 0, 0);
        question(&mut p, &[1, b'n', 0], 1);
        let mut cur: Vec<u8> = vec![1, b'n', 0];
        for k in 0..d {
            let mut nm = lab(k);
            nm.extend(&cur);
            cur = nm;
            rr(&mut p, &cur, 1, 1, &[1, 1, 1, 1]);
            rr(&mut p, &cur, 2, 1, &cur);
        }
        out.push(p);
    }
    // one name records k new suffixes (k around the size of the dictionary ring) and ends with the question's name,
    // then a ladder of nested names is built on one of its suffixes (first, middle, last-but-one)
    for k in 26usize..=36 {
        for on in [0usize, k / 2, k - 2] {
            for depth in [15usize, 16, 17, 20] {
                let mut p = header(22, 0x8000, 1, (1 + depth) as u16, 0, 0);
                let qn = [1u8, b'q', 2, b'e', b'x', 0];
                question(&mut p, &qn, 1);
                // labels l0 .. l(k-1), then q.ex
                let mut long: Vec<u8> = vec![];
                for i in 0..k {
                    long.extend(&[2, b'a' + (i % 26) as u8, b'0' + (i / 26) as u8]);
                }
                long.extend(&qn);
                rr(&mut p, &long, 1, 1, &[1, 1, 1, 1]);
                let mut cur: Vec<u8> = long[3 * on..].to_vec();
                for d in 0..depth {
                    let mut nm = vec![3, b'x', b'a' + (d % 26) as u8, b'0' + (d / 26) as u8];
                    nm.extend(&cur);
                    if nm.len() > 255 {
                        break;
                    }
                    cur = nm;
                    rr(&mut p, &cur, 1, 1, &[2, 2, 2, 2]);
                }
                // fix the answer count to what was emitted
                let mut count = 0u16;
                {
                    let mut off = 12 + qn.len() + 4;
                    while off < p.len() {
                        // skip name
                        while p[off] != 0 {
                            off += p[off] as usize + 1;
                        }
                        off += 1 + 10 + 4;
                        count += 1;
                    }
                }
                p[6] = (count >> 8) as u8;
                p[7] = count as u8;
                out.push(p);
            }
        }
    }
    // a ladder of nested names up to depth 15 / 16, then N records that repeat an already known name in full (nothing
    // new enters the dictionary), N around 2^8 and 2^9, then one more name extending the deepest one
    for depth in [15usize, 16] {
        for n in [0usize, 100, 254, 255, 256, 257, 300, 511, 512, 513] {
            let mut p = header(23, 0x8000, 1, 0, 0, 0);
            let qn = [1u8, b'n', 0];
            question(&mut p, &qn, 1);
            let mut cur: Vec<u8> = qn.to_vec();
            let mut count = 0u16;
            for k in 0..depth {
                let mut nm = lab(k);
                nm.extend(&cur);
                cur = nm;
                rr(&mut p, &cur, 1, 1, &[1, 1, 1, 1]);
                count += 1;
            }
            for i in 0..n {
                rr(&mut p, &qn, 1, 2, &[2, 2, (i >> 8) as u8, i as u8]);
                count += 1;
            }
            let mut nm = vec![2, b'z', b'z'];
            nm.extend(&cur);
            rr(&mut p, &nm, 1, 3, &[3, 3, 3, 3]);
            rr(&mut p, &nm, 2, 3, &nm);
            count += 2;
            p[6] = (count >> 8) as u8;
            p[7] = count as u8;
            out.push(p);
        }
    }
    // many distinct suffixes, then reuse of early and late ones
    for n in [30usize, 31, 32, 33, 34, 40, 70] {
        let mut p = header(21, 0x8000, 1, (n + 4) as u16, 0, 0);
        question(&mut p, &[3, b'q', b'q', b'q', 0], 1);
        let nm = |i: usize| -> Vec<u8> {
            let mut v = lab(i);
            v.extend(&[3, b't', b'l', b'd', 0]);
            v
        };
        for i in 0..n {
            rr(&mut p, &nm(i), 1, 1, &[1, 1, 1, 1]);
        }
        for i in [0usize, 1, n - 1, n / 2] {
            rr(&mut p, &nm(i), 5, 1, &nm(i));
        }
        out.push(p);
    }
    // long suffixes: 125..130 bytes, used twice
    for l in 120..=132usize {
        let mut nm = vec![];
        let mut left = l - 1;
        while left > 0 {
            let ll = (left - 1).min(40);
            nm.push(ll as u8);
            nm.extend(vec![b'l'; ll]);
            left -= ll + 1;
        }
        nm.push(0);
        let mut p = header(22, 0x8000, 1, 2, 0, 0);
        question(&mut p, &[1, b'q', 0], 1);
        let mut n2 = vec![1, b'x'];
        n2.extend(&nm);
        rr(&mut p, &nm, 1, 1, &[1, 1, 1, 1]);
        rr(&mut p, &n2, 1, 1, &[1, 1, 1, 1]);
        out.push(p);
    }
    // names beyond offset 16383: a big opaque record first, then repeated names
    for pad in [16300usize, 16349, 16350, 16351, 16352, 16353, 16354, 16355, 16356, 16357, 16370, 16380, 16400, 30000] {
        let mut p = header(23, 0x8000, 1, 5, 0, 0);
        question(&mut p, &[1, b'q', 0], 1);
        rr(&mut p, &[1, b'q', 0], 16, 1, &vec![b'p'; pad]);
        for _ in 0..2 {
            rr(&mut p, &[4, b'l', b'a', b't', b'e', 3, b'o', b'r', b'g', 0], 1, 1, &[1, 1, 1, 1]);
            rr(&mut p, &[3, b'w', b'w', b'w', 4, b'l', b'a', b't', b'e', 3, b'o', b'r', b'g', 0], 1, 1, &[1, 1, 1, 1]);
        }
        out.push(p);
    }
    // names that differ only in bit 5 of a byte that is not a letter are different names
    for (x, y) in [(b'[', b'{'), (b'@', b'`'), (b'^', b'~'), (0xc9u8, 0xe9u8), (b']', b'}'), (b'1', b'q')] {
        for swap in [false, true] {
            let (x, y) = if swap { (y, x) } else { (x, y) };
            let n1 = [3u8, b'a', x, b'b', 7, b'e', b'x', b'a', b'm', b'p', b'l', b'e', 3, b'c', b'o', b'm', 0];
            let n2 = [3u8, b'a', y, b'b', 7, b'e', b'x', b'a', b'm', b'p', b'l', b'e', 3, b'c', b'o', b'm', 0];
            let mut p = header(25, 0x8000, 1, 3, 1, 0);
            question(&mut p, &n1[4..], 1);
            rr(&mut p, &n1, 1, 1, &[1, 1, 1, 1]);
            rr(&mut p, &n2, 1, 2, &[2, 2, 2, 2]);
            rr(&mut p, &n1, 5, 3, &n2);
            rr(&mut p, &n2, 2, 4, &n1);
            out.push(p);
            // single-label variant: the whole suffix differs
            let s1 = [4u8, b'e', b'x', x, b'm', 3, b'o', b'r', b'g', 0];
            let s2 = [4u8, b'e', b'x', y, b'm', 3, b'o', b'r', b'g', 0];
            let mut p = header(25, 0x8000, 1, 2, 0, 0);
            question(&mut p, &s1, 1);
            rr(&mut p, &s2, 1, 1, &[1, 1, 1, 1]);
            rr(&mut p, &s1, 1, 1, &[1, 1, 1, 1]);
            out.push(p);
        }
    }
    for w in wide_packets(true) {
        out.push(w);
    }
    // output positions beyond 64 KiB (larger than any DNS message on the wire, but accepted): names there must
    // not be remembered as if they lived at position mod 65536
    {
        let mut p = header(26, 0x8000, 1, 7, 0, 0);
        question(&mut p, &[1, b'q', 0], 1);
        rr(&mut p, &[6, b'v', b'i', b'c', b't', b'i', b'm', 4, b't', b'e', b's', b't', 0], 1, 1, &[1, 1, 1, 1]);
        rr(&mut p, &[1, b'q', 0], 16, 1, &vec![b'x'; 40000]);
        let here = p.len();
        // second filler sized so that the next owner name starts at 65536 + (offset of the "victim.test" record)
        let target = 65536 + 19;
        rr(&mut p, &[1, b'q', 0], 16, 1, &vec![b'y'; target - here - 13]);
        rr(&mut p, &[6, b'a', b't', b't', b'a', b'c', b'k', 4, b'e', b'v', b'i', b'l', 0], 1, 1, &[2, 2, 2, 2]);
        rr(&mut p, &[4, b'b', b'b', b'b', b'b', 6, b'a', b't', b't', b'a', b'c', b'k', 4, b'e', b'v', b'i', b'l', 0], 1, 1, &[3, 3, 3, 3]);
        rr(&mut p, &[4, b'c', b'c', b'c', b'c', 6, b'v', b'i', b'c', b't', b'i', b'm', 4, b't', b'e', b's', b't', 0], 1, 1, &[4, 4, 4, 4]);
        rr(&mut p, &[2, b'n', b's', 6, b'a', b't', b't', b'a', b'c', b'k', 4, b'e', b'v', b'i', b'l', 0], 2, 1, &[3, b'n', b's', b'2', 6, b'a', b't', b't', b'a', b'c', b'k', 4, b'e', b'v', b'i', b'l', 0]);
        out.push(p);
    }
    // mixed-case duplicates, in owners and in data of each name-bearing type
    for ty in [2u16, 5, 12, 15, 6] {
        let lower = [3u8, b'w', b'w', b'w', 7, b'e', b'x', b'a', b'm', b'p', b'l', b'e', 3, b'c', b'o', b'm', 0];
        let upper = [3u8, b'W', b'w', b'W', 7, b'E', b'X', b'a', b'm', b'P', b'l', b'e', 3, b'C', b'O', b'M', 0];
        let mut rd = vec![];
        if ty == 15 {
            rd.extend(&[0, 7]);
        }
        rd.extend(&upper[4..]);
        if ty == 6 {
            rd.extend(&lower);
            rd.extend(&[9u8; 20]);
        }
        for opt_pos in 0..3usize {
            let mut p = header(24, 0x8000, 1, 2, 1, 2);
            question(&mut p, &upper, ty);
            rr(&mut p, &lower, ty, 1, &rd);
            rr(&mut p, &upper, ty, 2, &rd);
            rr(&mut p, &lower[4..], ty, 3, &rd);
            for k in 0..2 {
                if k == opt_pos {
                    rr(&mut p, &[0], 41, 0x0000_8000, &[0, 12, 0, 2, 0, 0]);
                } else {
                    rr(&mut p, &upper[4..], 1, 4, &[4, 4, 4, 4]);
                }
            }
            if opt_pos == 2 {
                // no OPT: fix nothing, both additional records are A records
            }
            out.push(p);
        }
    }
    out
}
