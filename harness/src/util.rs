use std::fmt::Write as _;
use std::io::Write;
use std::panic::{catch_unwind, AssertUnwindSafe};
use std::sync::atomic::{AtomicU64, Ordering};
use std::sync::Arc;

/// xorshift64*: deterministic, seedable, no dependency on the library under test.
pub struct Rng(pub u64);
impl Rng {
    pub fn new(seed: u64) -> Self {
        Rng(seed.wrapping_mul(0x9E3779B97F4A7C15) | 1)
    }
    pub fn next(&mut self) -> u64 {
        self.0 ^= self.0 << 13;
        self.0 ^= self.0 >> 7;
        self.0 ^= self.0 << 17;
        self.0
    }
    pub fn below(&mut self, n: usize) -> usize {
        if n == 0 {
            0
        } else {
            (self.next() % (n as u64)) as usize
        }
    }
    pub fn chance(&mut self, num: usize, den: usize) -> bool {
        self.below(den) < num
    }
    pub fn pick<'a, T>(&mut self, v: &'a [T]) -> &'a T {
        &v[self.below(v.len())]
    }
}

pub fn jbytes(v: &[u8]) -> String {
    let mut s = String::with_capacity(v.len() * 4 + 2);
    s.push('[');
    for (i, b) in v.iter().enumerate() {
        if i > 0 {
            s.push(',');
        }
        let _ = write!(s, "{}", b);
    }
    s.push(']');
    s
}
pub fn jopt<T: std::fmt::Display>(x: Option<T>) -> String {
    match x {
        None => "[]".into(),
        Some(v) => format!("[{}]", v),
    }
}
pub fn jstr(s: &str) -> String {
    serde_json::to_string(s).unwrap()
}
pub fn ju32(x: u32) -> String {
    jbytes(&x.to_be_bytes())
}

/// Field of a scenario line as a byte vector.
pub fn vbytes(v: &serde_json::Value) -> Vec<u8> {
    v.as_array()
        .map(|a| a.iter().map(|x| x.as_u64().unwrap_or(0) as u8).collect())
        .unwrap_or_default()
}
pub fn vstr(v: &serde_json::Value) -> String {
    v.as_str().unwrap_or("").to_string()
}
pub fn vusize(v: &serde_json::Value) -> usize {
    v.as_u64().unwrap_or(0) as usize
}

/// A panic inside the code under test is data, not a tool failure.
pub fn guarded<T>(f: impl FnOnce() -> T) -> Result<T, ()> {
    catch_unwind(AssertUnwindSafe(f)).map_err(|_| ())
}
pub fn res_kind<T, E>(r: &Result<Result<T, E>, ()>) -> &'static str {
    match r {
        Ok(Ok(_)) => "ok",
        Ok(Err(_)) => "err",
        Err(_) => "panic",
    }
}

/// Watchdog: if the scenario counter does not move for `secs` seconds the process writes a line
/// `{"k":"hang","i":<scenario>}` and exits with status 86; the orchestrator records the
/// scenario as a hang and restarts the driver after it.
pub struct Progress(pub Arc<AtomicU64>);
impl Progress {
    pub fn start(secs: u64) -> Self {
        let c = Arc::new(AtomicU64::new(0));
        let c2 = c.clone();
        std::thread::spawn(move || {
            let mut last = u64::MAX;
            let mut idle = 0;
            loop {
                std::thread::sleep(std::time::Duration::from_millis(500));
                let cur = c2.load(Ordering::SeqCst);
                if cur == last {
                    idle += 1;
                    if idle >= secs * 2 {
                        let so = std::io::stdout();
                        // the main thread may hold the lock only while writing a line
                        let mut o = so.lock();
                        let _ = writeln!(o, "{{\"k\":\"hang\",\"i\":{}}}", cur);
                        let _ = o.flush();
                        std::process::exit(86);
                    }
                } else {
                    last = cur;
                    idle = 0;
                }
            }
        });
        Progress(c)
    }
    pub fn tick(&self) {
        self.0.fetch_add(1, Ordering::SeqCst);
    }
}

/// Run `f` on a thread with a big stack so that deep recursion in the library shows up as a panic
/// or result instead of killing the harness for unrelated reasons.
pub fn on_big_stack<T: Send + 'static>(f: impl FnOnce() -> T + Send + 'static) -> T {
    std::thread::Builder::new()
        .stack_size(256 << 20)
        .spawn(f)
        .unwrap()
        .join()
        .unwrap()
}
