//! Conformance harness for the TLA+ specification of dnssector.
//!
//! The harness is deliberately dumb: it performs calls on the real library and logs raw values
//! (bytes, public fields, return values, panics) as ndjson.  It contains no DNS decoder and no
//! oracle; every judgement is made by TLC evaluating the specification over the logged events.
//!
//! JSON rules (the TLA+ `Json` module rejects `null`, TLC strings are not sequences, TLC integers
//! are 32-bit): byte strings are arrays of integers, `Option<T>` is `[]` / `[x]`, `u32` values are
//! 4-element byte arrays, every classification is its own enumerated string field.

pub mod cabi;
pub mod exec;
pub mod gen;
pub mod hist;
pub mod util;

pub use util::*;
