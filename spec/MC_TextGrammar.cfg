CONSTANTS
  MaxLabel = 63
  MaxName = 255
  MaxRefs = 16
  LabelCap = 62
  OutCap = 253
INIT Init
NEXT Next
CHECK_DEADLOCK FALSE
