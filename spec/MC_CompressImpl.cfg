CONSTANTS
  MaxLabel = 63
  MaxName = 255
  MaxRefs = 16
  MaxSuffixes = 32
  MaxSuffixLen = 127
  PtrLimit = 16384
  ImplBug = "none"
  Count = 1
  Stride = 41868361
  Offset = 1
  NS1 = 1500
  NMany = 40
  NNest = 20
INIT MCInit
NEXT MCNext
CHECK_DEADLOCK FALSE
