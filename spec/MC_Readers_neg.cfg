CONSTANTS
  MaxN = 5
  FixSkip = FALSE
SPECIFICATION Spec
INVARIANTS InBounds LeftCounts Exact Prefix
PROPERTY Terminates
CHECK_DEADLOCK FALSE
