CONSTANTS
  NThreads = 3
  Program <- Prog4
  Shared = FALSE
INIT Init
NEXT Next
INVARIANT Private
ACTION_CONSTRAINT Emit
CHECK_DEADLOCK FALSE
