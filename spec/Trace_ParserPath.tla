---- MODULE Trace_ParserPath ----
(***************************************************************************)
(* Binds the operational parser machine (Parser.tla) to recorded runs of   *)
(* the real parser: for every logged input the machine is *run* by TLC     *)
(* (one TLC step per machine step) and, at its terminal state, its verdict *)
(* and its step counter are compared with what the real parser returned    *)
(* and with the cfg-guarded hook counter.                                  *)
(* Verdict mismatches are C02's business (Trace_Parse decides them with    *)
(* the declarative policy); the step comparison is implementation-shaped   *)
(* and reported as a NOTE only: it shows that the machine whose linear     *)
(* bound TLC checks counts exactly what the hook counts.                   *)
(***************************************************************************)
EXTENDS Parser, Json, IOUtils

Rec == ndJsonDeserialize(IOEnv.TRACE)
VARIABLES l, done
PathInit == /\ l \in 1..Len(Rec) /\ done = 0
        /\ pkt = Rec[l].pkt /\ s = Init0(Rec[l].pkt)
PathRun == ~Terminal /\ s' = Step(s) /\ UNCHANGED <<pkt, l, done>>
PathFinish == /\ Terminal /\ done = 0 /\ done' = 1 /\ UNCHANGED <<pkt, s, l>>
          /\ LET e == Rec[l]  ok == (s.result = "ok") IN
             PrintT("@@PATH|" \o ToString(l) \o "|" \o (IF ok = (e.res = "ok") THEN "verdict-same" ELSE "verdict-differs") \o "|"
                    \o (IF s.steps = e.steps THEN "steps-same" ELSE "steps-differ:" \o ToString(s.steps) \o "/" \o ToString(e.steps)))
PathNext == PathRun \/ PathFinish
====
