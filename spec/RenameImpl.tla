---- MODULE RenameImpl ----
(***************************************************************************)
(* Byte-level transcription of Renamer::replace_raw (src/renamer.rs:17-73):*)
(* the implementation-shaped counterpart of Rename!Replace.  Names are raw *)
(* pointer-free wire names including the root byte; indices are 0-based as *)
(* in the code.  MC_Rename checks that it computes Replace on every name,  *)
(* source and target over a small label alphabet (case variants, partial   *)
(* label near misses such as "ab" inside "aab", matches at every depth).   *)
(***************************************************************************)
EXTENDS Rename

At(sq, i) == sq[i + 1]
EqIC(x, y) == Lower(x) = Lower(y)

\* first loop: walk label by label until the root or until position `offset` is reached
RECURSIVE WalkTo(_, _, _)
WalkTo(name, i, offset) == IF At(name, i) = 0 \/ i = offset THEN i ELSE WalkTo(name, i + At(name, i) + 1, offset)

\* second loop: compare the labels of name from i with source; TRUE iff all of them match
RECURSIVE SameFrom(_, _, _, _)
SameFrom(name, src, i, offset) ==
  IF At(name, i) = 0 THEN TRUE
  ELSE LET ll == At(name, i) IN
       IF ll # At(src, i - offset) THEN FALSE
       ELSE IF \E j \in 0..(ll - 1) : ~EqIC(At(name, i + 1 + j), At(src, i + 1 + j - offset)) THEN FALSE
       ELSE SameFrom(name, src, i + 1 + ll, offset)

None == [k |-> "none", v |-> <<>>]
ReplaceRaw(name, tgt, src, sfx) ==
  LET nl == Len(name)  sl == Len(src)  tl == Len(tgt) IN
  IF nl < sl \/ (~sfx /\ nl # sl) THEN None
  ELSE IF sl <= 0 \/ tl <= 0 THEN [k |-> "err", v |-> <<>>]
  ELSE IF At(src, 0) = 0 \/ At(tgt, 0) = 0 THEN [k |-> "err", v |-> <<>>]
  ELSE LET offset == nl - sl  i == WalkTo(name, 0, offset) IN
       IF i >= nl \/ (At(name, i) = 0 /\ nl > 0) THEN None
       ELSE IF i # offset THEN [k |-> "err", v |-> <<>>]
       ELSE IF ~SameFrom(name, src, i, offset) THEN None
       ELSE IF offset + tl > MaxName THEN [k |-> "err", v |-> <<>>]
       ELSE [k |-> "some", v |-> SubSeq(name, 1, offset) \o tgt]
====
