CONSTANTS
  MaxLabel = 63
  MaxName = 255
  MaxRefs = 16
  Count = 1
  Stride = 41868361
  Offset = 1
  NS1 = 120
  BugEdns = TRUE
INIT MCInit
NEXT MCNext
CHECK_DEADLOCK FALSE
