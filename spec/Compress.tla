---- MODULE Compress ----
(***************************************************************************)
(* The suffix dictionary of Compress::compress / Renamer                   *)
(* (src/compress.rs: copy_compressed_name_with_base_offset, SuffixDict) as *)
(* a step machine over labels.  A packet is abstracted to the sequence of  *)
(* its names (separated by Gap bytes of other data); a name is a sequence  *)
(* of one-byte labels.  The dictionary has MaxSuffixes slots, slot 1 is    *)
(* pinned once the table wraps around (the code keeps "the question").     *)
(*                                                                         *)
(* Switches:                                                               *)
(*   BugInputOffsets  the dictionary remembers offsets of the *input*      *)
(*                    (defect F02 of the pinned tree)                      *)
(*   TrackDepth       entries carry the number of indirections a reader    *)
(*                    follows from them and saturated entries are not used *)
(*                    as targets (the repair of F23)                       *)
(* Properties: DictSound (every entry of a finished name resolves, in the  *)
(* output built so far, to its suffix), OutputFaithful, NotLonger,         *)
(* ChainsAdmissible (no name of the output needs more than MaxRefs jumps). *)
(***************************************************************************)
EXTENDS Naturals, Sequences, FiniteSets, TLC

CONSTANTS Labels, MaxNames, MaxDepth, MaxSuffixes, MaxSuffixLen, MaxRefs, Gap,
          BugInputOffsets, TrackDepth

\* a name is a sequence of labels (1-byte labels => 2 wire bytes each) + root byte
NameSet == UNION {[1..n -> Labels] : n \in 1..MaxDepth}
WLen(nm) == 2 * Len(nm) + 1

VARIABLES names, k, j, out, dict, idx, count, inoff
vars == <<names, k, j, out, dict, idx, count, inoff>>

\* out items: [t |-> "lab", l |-> x] (2 bytes) | [t |-> "root"] (1) | [t |-> "ptr", to |-> o] (2) | [t |-> "gap"] (Gap bytes)
ISize(it) == CASE it.t = "lab" -> 2 [] it.t = "root" -> 1 [] it.t = "ptr" -> 2 [] it.t = "gap" -> Gap
RECURSIVE OLen(_, _)
OLen(o, n) == IF n = 0 THEN 12 ELSE ISize(o[n]) + OLen(o, n - 1)
OutLen(o) == OLen(o, Len(o))
ItemAt(o, off) == IF \E i \in 1..Len(o) : OLen(o, i - 1) = off THEN CHOOSE i \in 1..Len(o) : OLen(o, i - 1) = off ELSE 0

\* resolve the name starting at byte offset off of output o: [ok, labels, depth]
RECURSIVE Res(_, _, _, _, _)
Res(o, i, acc, depth, fuel) ==
  IF fuel = 0 \/ i = 0 \/ i > Len(o) THEN [ok |-> FALSE, labels |-> acc, depth |-> depth]
  ELSE IF o[i].t = "lab" THEN Res(o, i + 1, Append(acc, o[i].l), depth, fuel - 1)
  ELSE IF o[i].t = "root" THEN [ok |-> TRUE, labels |-> acc, depth |-> depth]
  ELSE IF o[i].t = "ptr" THEN Res(o, ItemAt(o, o[i].to), acc, depth + 1, fuel - 1)
  ELSE [ok |-> FALSE, labels |-> acc, depth |-> depth]
Resolve(o, off) == Res(o, ItemAt(o, off), <<>>, 0, 64)

Init == /\ names \in UNION {[1..n -> NameSet] : n \in 1..MaxNames}
        /\ k = 1 /\ j = 1 /\ out = <<>> /\ dict = <<>> /\ idx = 1 /\ count = 0 /\ inoff = 12

Suffix == SubSeq(names[k], j, Len(names[k]))
Lookup(suf) == IF \E e \in 1..count : dict[e].suf = suf /\ (TrackDepth => dict[e].depth < MaxRefs)
               THEN CHOOSE e \in 1..count : dict[e].suf = suf /\ (TrackDepth => dict[e].depth < MaxRefs)
                                            /\ \A f \in 1..count : (dict[f].suf = suf /\ (TrackDepth => dict[f].depth < MaxRefs)) => e <= f
               ELSE 0

\* one step: handle the suffix starting at label j of name k
Step ==
  /\ k <= Len(names)
  /\ LET suf == Suffix
         here == IF BugInputOffsets THEN inoff ELSE OutLen(out)
         eligible == here < 16384 /\ WLen(suf) > 2 /\ WLen(suf) <= MaxSuffixLen
         hit == IF eligible THEN Lookup(suf) ELSE 0
     IN IF hit # 0
        THEN \* emit pointer, finish name
             /\ out' = Append(out, [t |-> "ptr", to |-> dict[hit].off]) \o <<[t |-> "gap"]>>
             /\ k' = k + 1 /\ j' = 1
             /\ inoff' = inoff + WLen(suf) + Gap
             \* end_name(depth of the target + 1): the suffixes recorded for this name inherit it
             /\ dict' = IF TrackDepth THEN [e \in 1..Len(dict) |-> IF dict[e].nm = k THEN [dict[e] EXCEPT !.depth = dict[hit].depth + 1] ELSE dict[e]] ELSE dict
             /\ UNCHANGED <<idx, count>>
        ELSE /\ IF eligible
                THEN LET e == [suf |-> suf, off |-> here, depth |-> 0, nm |-> k, lab |-> j]
                         d2 == IF idx <= Len(dict) THEN [dict EXCEPT ![idx] = e] ELSE Append(dict, e) IN
                     /\ dict' = d2
                     /\ count' = IF idx > count THEN idx ELSE count
                     /\ idx' = IF idx + 1 > MaxSuffixes THEN 2 ELSE idx + 1
                ELSE UNCHANGED <<dict, idx, count>>
             /\ IF j > Len(names[k])
                THEN /\ out' = Append(out, [t |-> "root"]) \o <<[t |-> "gap"]>>
                     /\ k' = k + 1 /\ j' = 1 /\ inoff' = inoff + 1 + Gap
                ELSE /\ out' = Append(out, [t |-> "lab", l |-> names[k][j]])
                     /\ j' = j + 1 /\ k' = k /\ inoff' = inoff + 2
  /\ UNCHANGED names

Next == Step
Spec == Init /\ [][Next]_vars

\* ---------- properties ----------
Done == k > Len(names)
\* start offset (in the output) of the i-th name: names are separated by gaps
RECURSIVE NameStarts(_, _, _, _)
NameStarts(o, i, atStart, acc) ==
  IF i > Len(o) THEN acc
  ELSE IF atStart THEN NameStarts(o, i + 1, FALSE, Append(acc, OLen(o, i - 1)))
  ELSE NameStarts(o, i + 1, o[i].t = "gap", acc)
DictSound == \A e \in 1..count : dict[e].nm < k => LET r == Resolve(out, dict[e].off) IN r.ok /\ r.labels = dict[e].suf
OutputFaithful == Done => LET st == NameStarts(out, 1, TRUE, <<>>) IN
                    /\ Len(st) = Len(names)
                    /\ \A i \in 1..Len(names) : LET r == Resolve(out, st[i]) IN r.ok /\ r.labels = names[i]
ChainsAdmissible == Done => LET st == NameStarts(out, 1, TRUE, <<>>) IN
                    \A i \in 1..Len(st) : Resolve(out, st[i]).depth <= MaxRefs
NotLonger == Done => OutLen(out) <= inoff
====
