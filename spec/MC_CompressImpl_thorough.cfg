CONSTANTS
  MaxLabel = 63
  MaxName = 255
  MaxRefs = 16
  MaxSuffixes = 32
  MaxSuffixLen = 127
  PtrLimit = 16384
  ImplBug = "none"
  Count = 1
  Stride = 41868361
  Offset = 1
  NS1 = 40000
  NMany = 80
  NNest = 40
INIT MCInit
NEXT MCNext
CHECK_DEADLOCK FALSE
