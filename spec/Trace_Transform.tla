---- MODULE Trace_Transform ----
(***************************************************************************)
(* Trace validation of the three packet-to-packet transformations:         *)
(*   C05 decompression, C06 compression, C07 renaming (bytes in, bytes out)*)
(* Stateless scheme: one event per call.                                   *)
(***************************************************************************)
EXTENDS Rename, Json, IOUtils

Rec == ndJsonDeserialize(IOEnv.TRACE)
VARIABLES l, done
Init == l \in 1..Len(Rec) /\ done = 0
Once == done = 0 /\ done' = 1 /\ l' = l
\* the driver process was killed by the scenario (abort, stack overflow) or made no progress (hang)
Died(e) == e.k \in {"hang", "abort"}
Report(tag, why) == PrintT("@@" \o tag \o "|" \o ToString(l) \o "|" \o why)
Note(tag, what) == PrintT("@@" \o tag \o "|" \o ToString(l) \o "|" \o what)

----------------------------------------------------------------------------
(* C05 *)
CarryLimit == 712     \* the driver tries every offset 12..min(len, 712) and len itself
IndexOf(sq, x) == IF \E k \in 1..Len(sq) : sq[k] = x THEN CHOOSE k \in 1..Len(sq) : sq[k] = x ELSE 0
C05Why(e) ==
  IF ~WellFormed(e.pkt) THEN "-"                                \* outside the quantifier
  ELSE IF e.out.k # "ok" THEN "decompression " \o e.out.k \o " " \o e.out.e
  ELSE LET o == e.out.b IN
    IF ~WellFormed(o) THEN "output rejected by the policy: " \o WhyNot(o)
    ELSE IF ~SameMessage(e.pkt, o) THEN "output decodes to a different message"
    ELSE IF ~PointerFreePkt(o) THEN "output still contains a compression pointer"
    ELSE IF e.again.k # "ok" \/ e.again.b # o THEN "a second decompression changes the output"
    ELSE LET bi == Boundaries(e.pkt)  bo == Boundaries(o) IN
      IF \E k \in 1..Len(bi) : (bi[k] <= CarryLimit \/ bi[k] = Len(e.pkt)) /\ ~\E j \in 1..Len(e.carry) : e.carry[j].ref = bi[k]
      THEN "driver did not try every boundary"
      ELSE IF \E j \in 1..Len(e.carry) :
                LET c == e.carry[j]  k == IndexOf(bi, c.ref) IN
                k # 0 /\ ~(c.k = "ok" /\ c.new = bo[k] /\ c.same_out)
           THEN LET j == CHOOSE j \in 1..Len(e.carry) : LET c == e.carry[j]  k == IndexOf(bi, c.ref) IN k # 0 /\ ~(c.k = "ok" /\ c.new = bo[k] /\ c.same_out) IN
                "record boundary " \o ToString(e.carry[j].ref) \o " is not carried to the same boundary of the output"
           ELSE ""
C05(e) == LET w == C05Why(e) IN
          /\ Note("FACT", IF w = "-" THEN "skipped" ELSE IF WellFormed(e.pkt) /\ ~PointerFreePkt(e.pkt) THEN "compressed" ELSE "pointer-free")
          /\ (IF w \in {"", "-"} THEN TRUE ELSE Report("VIOLATION-C05", w))
NextC05 == Once /\ (IF Died(Rec[l]) THEN Report("VIOLATION-C05", "the library " \o Rec[l].k \o "s") ELSE C05(Rec[l]))

----------------------------------------------------------------------------
(* C06 *)
C06Why(e) ==
  IF ~WellFormed(e.pkt) \/ ~PointerFreePkt(e.pkt) THEN "-"      \* outside the quantifier
  ELSE IF e.out.k # "ok" THEN "compression " \o e.out.k \o " " \o e.out.e
  ELSE LET o == e.out.b IN
    IF ~WellFormed(o) THEN "output rejected by the policy: " \o WhyNot(o)
    ELSE IF Len(o) > Len(e.pkt) THEN "output longer than the input"
    ELSE IF ~SameUpToCase(e.pkt, o) THEN "output decodes to a different message"
    ELSE IF Decode(e.pkt).q.labels # Decode(o).q.labels THEN "question name not byte-identical"
    ELSE IF e.back.k # "ok" THEN "decompressing the output " \o e.back.k
    ELSE IF ~(WellFormed(e.back.b) /\ SameUpToCase(e.pkt, e.back.b) /\ Len(e.back.b) = Len(e.pkt)) THEN "decompressing the output does not give back the input up to case"
    ELSE ""
C06(e) == LET w == C06Why(e) IN
          /\ Note("FACT", IF w = "-" THEN "skipped" ELSE IF w = "" /\ Len(e.out.b) < Len(e.pkt) THEN "shrunk" ELSE "same-size")
          /\ (IF w \in {"", "-"} THEN TRUE ELSE Report("VIOLATION-C06", w))
NextC06 == Once /\ (IF Died(Rec[l]) THEN Report("VIOLATION-C06", "the library " \o Rec[l].k \o "s") ELSE C06(Rec[l]))

----------------------------------------------------------------------------
(* C07 *)
C07Why(e) ==
  IF ~WellFormed(e.pkt) \/ ~GoodName(e.target) \/ ~GoodName(e.source) THEN "-"
  ELSE IF ~e.input_untouched THEN "the input packet was modified"
  ELSE RenameWhy(e.pkt, e.target, e.source, e.suffix, e.out.k, e.out.b)
C07Fact(e) ==
  LET tgt == UName(e.target, 0).labels  src == UName(e.source, 0).labels  ins == NamesOf(e.pkt)
      hits == Cardinality({i \in 1..Len(ins) : Replace(ins[i], tgt, src, e.suffix) # ins[i] \/ (LowerLabels(ins[i]) = LowerLabels(src)) \/
                                               (e.suffix /\ Len(ins[i]) >= Len(src) /\ LowerLabels(SubSeq(ins[i], Len(ins[i]) - Len(src) + 1, Len(ins[i]))) = LowerLabels(src))}) IN
  IF e.out.k = "err" THEN "overflow" ELSE IF hits = 0 THEN "no-match" ELSE IF hits = Len(ins) THEN "all-match" ELSE "some-match"
C07(e) == LET w == C07Why(e) IN
          /\ Note("FACT", IF w = "-" THEN "skipped" ELSE C07Fact(e))
          /\ (IF w \in {"", "-"} THEN TRUE ELSE Report("VIOLATION-C07", w))
NextC07 == Once /\ (IF Died(Rec[l]) THEN Report("VIOLATION-C07", "the library " \o Rec[l].k \o "s") ELSE C07(Rec[l]))
====
