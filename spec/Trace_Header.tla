---- MODULE Trace_Header ----
(***************************************************************************)
(* C12: trace validation of the header setters and getters.                *)
(* One event per initial flag word w; inside, vectors of                   *)
(*   flags  [arg_lo16, arg_hi16, word after, rest unchanged, flags() low,  *)
(*           flags() high, is_response()]                                  *)
(*   rcode / opcode [arg, word after, rest unchanged, getter]              *)
(*   qr     [arg, word after, rest unchanged, getter, and the same three   *)
(*           for the free-standing DNSSector::set_response on raw bytes]   *)
(*   tidset [arg, id after, word after, rest unchanged, getter]            *)
(* "rest unchanged" is a byte comparison of everything but the field's two *)
(* bytes (id, counts, question, OPT) done by the driver.                   *)
(***************************************************************************)
EXTENDS Header, Sequences, TLC, Json, IOUtils

Rec == ndJsonDeserialize(IOEnv.TRACE)
VARIABLES l, done
Init == l \in 1..Len(Rec) /\ done = 0
Once == done = 0 /\ done' = 1 /\ l' = l
\* the driver process was killed by the scenario (abort, stack overflow) or made no progress (hang)
Died(e) == e.k \in {"hang", "abort"}
Report(tag, why) == PrintT("@@" \o tag \o "|" \o ToString(l) \o "|" \o why)

FirstBad(sq, P(_)) == IF \E i \in 1..Len(sq) : ~P(sq[i]) THEN CHOOSE i \in 1..Len(sq) : ~P(sq[i]) /\ \A j \in 1..(i - 1) : P(sq[j]) ELSE 0

C12Why(e) ==
  IF e.k = "decomp" THEN
       IF e.res # "ok" THEN "decomposition sweep " \o e.res
       ELSE IF e.bad # <<>> THEN "set_flags(w, a) # set_flags(w, 0) | set_flags(0, a) for w = " \o ToString(e.bad[1][1]) \o ", a = " \o ToString(e.bad[1][2])
       ELSE ""
  ELSE IF e.res # "ok" THEN "setter " \o e.res
  ELSE LET w == e.w  x == IF e.xfl < 0 THEN 0 ELSE e.xfl
           okF(t) == t[3] = SetFlagsA(w, t[1]) /\ t[4] = 1 /\ t[5] = FlagBitsA(t[3]) /\ t[6] = x /\ t[7] = t[3] \div 32768
           okR(t) == t[2] = SetRcodeA(w, t[1]) /\ t[3] = 1 /\ t[4] = t[1] % 16
           okO(t) == t[2] = SetOpcodeA(w, t[1]) /\ t[3] = 1 /\ t[4] = t[1] % 16
           okQ(t) == /\ t[2] = SetQRA(w, t[1] = 1) /\ t[3] = 1 /\ t[4] = t[1]
                     /\ t[5] = SetQRA(w, t[1] = 1) /\ t[6] = 1 /\ t[7] = t[1]
           okT(t) == t[2] = t[1] /\ t[3] = w /\ t[4] = 1 /\ t[5] = t[1]
           bf == FirstBad(e.flags, okF)  br == FirstBad(e.rcode, okR)  bo == FirstBad(e.opcode, okO)
           bq == FirstBad(e.qr, okQ)  bt == FirstBad(e.tidset, okT)
       IN IF bf # 0 THEN "set_flags(" \o ToString(e.flags[bf][2] * 65536 + e.flags[bf][1]) \o ") on word " \o ToString(w) \o " gives " \o ToString(e.flags[bf][3]) \o ", expected " \o ToString(SetFlagsA(w, e.flags[bf][1])) \o " (or a getter / another byte disagrees)"
          ELSE IF br # 0 THEN "set_rcode(" \o ToString(e.rcode[br][1]) \o ") on word " \o ToString(w)
          ELSE IF bo # 0 THEN "set_opcode(" \o ToString(e.opcode[bo][1]) \o ") on word " \o ToString(w)
          ELSE IF bq # 0 THEN "set_response on word " \o ToString(w)
          ELSE IF bt # 0 THEN "set_tid(" \o ToString(e.tidset[bt][1]) \o ")"
          ELSE ""
C12(e) == LET w == C12Why(e) IN IF w = "" THEN TRUE ELSE Report("VIOLATION-C12", w)
NextC12 == Once /\ (IF Died(Rec[l]) THEN Report("VIOLATION-C12", "the library " \o Rec[l].k \o "s") ELSE C12(Rec[l]))
====
