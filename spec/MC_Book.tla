---- MODULE MC_Book ----
EXTENDS Book
====
