---- MODULE MutateImpl ----
(***************************************************************************)
(* Byte-level transcription of the in-place mutations of a pointer-free    *)
(* packet (src/rr_iterator.rs: resize_rr, set_raw_name, delete;            *)
(* src/parsed_packet.rs: insert_rr, rrcount_inc / rrcount_dec): the        *)
(* overlapping move of the packet's tail, the shifting of the section      *)
(* offsets and of the EDNS offset that lie behind the edited record, the   *)
(* cursor's own offsets, the header counts.                                *)
(*                                                                         *)
(* State: [p (bytes), v (object view: oq, oan, ons, oar, oedns as 0-or-    *)
(* offset, ecount, has_edns), c (cursor: off, ne (name end), nx (next),    *)
(* tomb)].  MC_MutateImpl checks on enumerated packets that after every    *)
(* operation the bytes decode to the specified message (History, C09) and  *)
(* the view equals the fresh view of the bytes (C08).                      *)
(***************************************************************************)
EXTENDS History

Opt0(x) == IF x = <<>> THEN 0 ELSE x[1]
ViewOf(p) == LET f == FreshView(p) IN
  [oq |-> Opt0(f.oq), oan |-> Opt0(f.oan), ons |-> Opt0(f.ons), oar |-> Opt0(f.oar), oedns |-> Opt0(f.oedns), ecount |-> f.ecount]
Put16(p, o, x) == [p EXCEPT ![o + 1] = x \div 256, ![o + 2] = x % 256]

\* TypedIterable::current_section on a cursor at offset off
SectionAt(v, off) ==
  IF v.oar # 0 /\ off >= v.oar THEN "AR"
  ELSE IF v.ons # 0 /\ off >= v.ons THEN "NS"
  ELSE IF v.oan # 0 /\ off >= v.oan THEN "AN"
  ELSE "Q"
CountOff(sec) == CASE sec = "Q" -> 4 [] sec = "AN" -> 6 [] sec = "NS" -> 8 [] OTHER -> 10

\* cursor on the record that starts at off (pointer-free bytes): name end and next record
CursorAt(p, sec, off) ==
  LET ne == UName(p, off).end IN
  [off |-> off, ne |-> ne, nx |-> IF sec = "Q" THEN ne + 4 ELSE ne + 10 + U16(p, ne + 8), tomb |-> FALSE]

\* resize_rr(shift): shift given as (grow, amount)
Resize(st, grow, k) ==
  IF k = 0 THEN st
  ELSE LET p == st.p  off == st.c.off  n == Len(p)
           p2 == IF grow THEN SubSeq(p, 1, off) \o [j \in 1..k |-> 0] \o SubSeq(p, off + 1, n)       \* tail moved right by k
                 ELSE SubSeq(p, 1, off) \o SubSeq(p, off + k + 1, n)                                  \* tail moved left by k
           sh(x) == IF x = 0 THEN 0 ELSE IF grow THEN x + k ELSE x - k
           sec == SectionAt(st.v, off)
           v == st.v
           v2 == [v EXCEPT !.oedns = IF v.oedns > off THEN sh(v.oedns) ELSE v.oedns,
                           !.oar = IF sec \in {"NS", "AN", "Q"} THEN sh(v.oar) ELSE v.oar,
                           !.ons = IF sec \in {"AN", "Q"} THEN sh(v.ons) ELSE v.ons,
                           !.oan = IF sec = "Q" THEN sh(v.oan) ELSE v.oan]
       IN [p |-> p2, v |-> v2, c |-> [st.c EXCEPT !.nx = IF grow THEN @ + k ELSE @ - k]]

\* set_raw_name(name) through a live cursor (name already validated)
SetRawName(st, name) ==
  LET cur == st.c.ne - st.c.off  new == Len(name)
      sec == SectionAt(st.v, st.c.off)
      s1 == IF new >= cur THEN Resize(st, TRUE, new - cur) ELSE Resize(st, FALSE, cur - new)
      p2 == [j \in 1..Len(s1.p) |-> IF j > st.c.off /\ j <= st.c.off + new THEN name[j - st.c.off] ELSE s1.p[j]]
  IN [p |-> p2, v |-> s1.v, c |-> CursorAt(p2, sec, st.c.off)]

\* delete() through a live cursor
Delete(st) ==
  LET sec == SectionAt(st.v, st.c.off)
      isOpt == sec = "AR" /\ U16(st.p, st.c.ne) = TOPT
      len == st.c.nx - st.c.off
      s1 == Resize(st, FALSE, len)
      cnt == U16(s1.p, CountOff(sec)) - 1
      p2 == Put16(s1.p, CountOff(sec), cnt)
      v1 == IF isOpt THEN [s1.v EXCEPT !.oedns = 0, !.ecount = 0] ELSE s1.v
      v2 == IF cnt > 0 THEN v1
            ELSE CASE sec = "Q" -> [v1 EXCEPT !.oq = 0] [] sec = "AN" -> [v1 EXCEPT !.oan = 0]
                   [] sec = "NS" -> [v1 EXCEPT !.ons = 0] [] OTHER -> [v1 EXCEPT !.oar = 0]
  IN [p |-> p2, v |-> v2, c |-> [off |-> 0, ne |-> 0, nx |-> st.c.off, tomb |-> TRUE]]

\* insert_rr(section, rr bytes) on a pointer-free packet (size and count checks passed)
First(xs) == IF \E i \in 1..Len(xs) : xs[i] # 0 THEN xs[CHOOSE i \in 1..Len(xs) : xs[i] # 0 /\ \A j \in 1..(i - 1) : xs[j] = 0] ELSE 0
Insert(st, sec, rr) ==
  LET p == st.p  v == st.v  n == Len(p)  k == Len(rr)
      at0 == CASE sec = "Q" -> First(<<v.oan, v.ons, v.oar>>) [] sec = "AN" -> First(<<v.ons, v.oar>>)
               [] sec = "NS" -> v.oar [] OTHER -> 0
      at == IF at0 = 0 THEN n ELSE at0
      p2 == SubSeq(p, 1, at) \o rr \o SubSeq(p, at + 1, n)
      p3 == Put16(p2, CountOff(sec), U16(p2, CountOff(sec)) + 1)
      up(x) == IF x = 0 THEN 0 ELSE x + k
      v2 == CASE sec = "Q"  -> [v EXCEPT !.oq = IF @ = 0 THEN at ELSE @, !.oan = up(@), !.ons = up(@), !.oar = up(@), !.oedns = up(@)]
              [] sec = "AN" -> [v EXCEPT !.oan = IF @ = 0 THEN at ELSE @, !.ons = up(@), !.oar = up(@), !.oedns = up(@)]
              [] sec = "NS" -> [v EXCEPT !.ons = IF @ = 0 THEN at ELSE @, !.oar = up(@), !.oedns = up(@)]
              [] OTHER      -> [v EXCEPT !.oar = IF @ = 0 THEN at ELSE @]
  IN [p |-> p3, v |-> v2, c |-> st.c]
====
