---- MODULE MC_Parser ----
(***************************************************************************)
(* Universes of packets for model checking the parser machine.             *)
(*  "bytes"  : every byte string  header(menu) ++ body, body over a small  *)
(*             alphabet up to MaxBody bytes -- with scaled limits, so that *)
(*             label / name / pointer limits interact within a few bytes   *)
(*  "tokens" : packets assembled from a menu of question and record tokens *)
(*             (valid and single-fault variants) at the real limits        *)
(***************************************************************************)
EXTENDS Parser

CONSTANTS Mode, Alphabet, MaxBody

B16(x) == <<x \div 256, x % 256>>
Hdr(id, qr, qd, an, ns, ar) == id \o <<IF qr THEN 128 ELSE 0, 0>> \o B16(qd) \o B16(an) \o B16(ns) \o B16(ar)

\* ---- byte universe ----
ByteHeaders == { Hdr(<<1, 97>>, TRUE, 1, 0, 0, 0), Hdr(<<0, 0>>, TRUE, 1, 1, 0, 0), Hdr(<<1, 97>>, FALSE, 1, 0, 0, 1) }
Bodies == UNION { [1..n -> Alphabet] : n \in 0..MaxBody }
ByteUniverse == { h \o b : h \in ByteHeaders, b \in Bodies } \cup { <<>>, <<0, 0, 128, 0, 0, 1>> }

\* ---- token universe ----
QNames == { <<0>>, <<1, 97, 0>>, <<1, 97, 1, 98, 0>>, <<192, 0>>, <<192, 12>>, <<1, 46, 0>>, <<64, 0>> }
QTails == { <<0, 1, 0, 1>>, <<0, 1, 0, 3>>, <<0, 1, 0>> }
Questions == { n \o t : n \in QNames, t \in QTails }

Owners == { <<0>>, <<192, 12>>, <<1, 99, 192, 12>>, <<192, 13>>, <<192, 40>> }
\* rdata variants per type: <<type, rdata, declared length>>
NameData == { <<192, 12>>, <<1, 100, 0>>, <<0>>, <<1, 100, 192, 12>> }
RData ==
     { <<TA, <<1, 2, 3, 4>>, 4>>, <<TA, <<1, 2, 3, 4>>, 3>>, <<TAAAA, <<1, 2, 3, 4>>, 4>> }
  \cup { <<TNS, d, Len(d)>> : d \in NameData } \cup { <<TCNAME, <<192, 12>>, 3>>, <<TPTR, <<1, 100, 0>>, 2>>, <<TNS, <<>>, 0>> }
  \cup { <<TMX, <<0, 5>> \o d, 2 + Len(d)>> : d \in NameData } \cup { <<TMX, <<0, 5>>, 2>> }
  \cup { <<TSOA, <<192, 12>> \o <<1, 100, 0>> \o [i \in 1..20 |-> 7], 25>>,
         <<TSOA, <<192, 12>> \o <<1, 100, 0>> \o [i \in 1..20 |-> 7], 24>>,
         <<TSOA, <<192, 12>> \o <<1, 100, 0>> \o [i \in 1..19 |-> 7], 25>> }
  \cup { <<TDNAME, <<1, 46, 0>>, 3>>, <<TDNAME, <<192, 12>>, 2>> }
  \cup { <<TOPT, <<>>, 0>>, <<TOPT, <<0, 8, 0, 1, 9>>, 5>>, <<TOPT, <<0, 8, 0, 2, 9>>, 5>>, <<TOPT, <<0, 8, 0>>, 3>>,
         <<TOPT, <<0, 8, 0, 0, 0, 9, 0, 0>>, 8>> }
  \cup { <<999, <<5, 5>>, 2>>, <<999, <<5, 5>>, 3>> }
RRTok(o, r) == o \o B16(r[1]) \o <<0, 1, 0, 0, 0, 9>> \o B16(r[3]) \o r[2]
Records == { RRTok(o, r) : o \in Owners, r \in RData }
SmallRecords == { RRTok(o, r) : o \in {<<0>>, <<192, 12>>}, r \in {x \in RData : x[1] \in {TA, TOPT, TNS}} }

TokPackets ==
  \* question-only packets, with and without a trailing byte
     { Hdr(<<1, 97>>, qr, 1, 0, 0, 0) \o q \o t : qr \in BOOLEAN, q \in Questions, t \in {<<>>, <<0>>} }
  \* one record in each section
  \cup { Hdr(<<1, 97>>, qr, 1, IF sec = 1 THEN 1 ELSE 0, IF sec = 2 THEN 1 ELSE 0, IF sec = 3 THEN 1 ELSE 0)
            \o <<1, 97, 0, 0, 1, 0, 1>> \o r \o t
          : qr \in BOOLEAN, sec \in 1..3, r \in Records, t \in {<<>>, <<0>>} }
  \* two records in the additional section (OPT first / last / twice), count lies
  \cup { Hdr(<<1, 97>>, TRUE, 1, 0, 0, c) \o <<1, 97, 0, 0, 1, 0, 1>> \o r1 \o r2
          : c \in {1, 2, 3}, r1 \in SmallRecords, r2 \in SmallRecords }

\* ---- stand-alone name checks: any buffer, any offset, both walkers ----
VARIABLES wmode, woff
NameInit == /\ pkt \in Bodies /\ wmode \in {"c", "u"} /\ woff \in 0..(Len(pkt) + 1)
            /\ s = StartWalk(Init0(pkt), wmode, woff, "namedone")
NameSpec == NameInit /\ [][Next /\ UNCHANGED <<wmode, woff>>]_<<vars, wmode, woff>> /\ WF_<<vars, wmode, woff>>(Next /\ UNCHANGED <<wmode, woff>>)
NameAgree == AgreeName(wmode, woff)
NameStepBound == s.steps <= MaxRefs + (MaxName + 1) \div 2 + 1

Universe == IF Mode = "bytes" THEN ByteUniverse ELSE TokPackets

MCInit == pkt \in Universe /\ s = Init0(pkt) /\ wmode = "-" /\ woff = 0
MCSpec == MCInit /\ [][Next /\ UNCHANGED <<wmode, woff>>]_<<vars, wmode, woff>> /\ WF_<<vars, wmode, woff>>(Next /\ UNCHANGED <<wmode, woff>>)
====
