---- MODULE Rename ----
(***************************************************************************)
(* Renaming at the level of the property C07: a function on label          *)
(* sequences applied to every name of the message, everything that is not  *)
(* a name untouched.                                                       *)
(***************************************************************************)
EXTENDS Message

\* exact mode: equal (case-insensitively) => target; suffix mode: ends with source on a label
\* boundary => that part replaced by the target; otherwise unchanged
Replace(labels, tgt, src, suffixMode) ==
  LET n == Len(labels)  k == Len(src) IN
  IF ~suffixMode THEN IF LowerLabels(labels) = LowerLabels(src) THEN tgt ELSE labels
  ELSE IF n >= k /\ LowerLabels(SubSeq(labels, n - k + 1, n)) = LowerLabels(src)
       THEN SubSeq(labels, 1, n - k) \o tgt ELSE labels

\* all names of a packet in wire order: question, then per record the owner and the names in its data
RecNames(p, r) == <<r.labels>> \o Canon(p, r).names
RECURSIVE AllNames(_, _, _, _)
AllNames(p, rs, i, acc) == IF i > Len(rs) THEN acc ELSE AllNames(p, rs, i + 1, acc \o RecNames(p, rs[i]))
NamesOf(p) == LET m == Decode(p) IN AllNames(p, AllRecs(m), 1, <<m.q.labels>>)

\* everything that is not a name
Skel(p, r) == [type |-> r.type, class |-> r.class, ttl |-> r.ttl, fixed |-> FixedOf(r, Canon(p, r))]
SkelOf(p) == LET m == Decode(p)  rs == AllRecs(m) IN
  [hdr |-> SubSeq(p, 1, 12), qt |-> m.q.type, qc |-> m.q.class, nan |-> Len(m.an), nns |-> Len(m.ns),
   rs |-> [i \in 1..Len(rs) |-> Skel(p, rs[i])]]

\* a well-formed pointer-free non-root name given as raw bytes
GoodName(raw) == LET n == UName(raw, 0) IN Len(raw) > 0 /\ n.ok /\ n.end = Len(raw) /\ n.labels # <<>>

\* "" when the rename event e = [pkt, target, source, suffix, res ("ok"/"err"/"panic"), out] obeys C07
RenameWhy(pkt, target, source, suffix, res, out) ==
  LET tgt == UName(target, 0).labels  src == UName(source, 0).labels
      ins == NamesOf(pkt)
      mapped == [i \in 1..Len(ins) |-> Replace(ins[i], tgt, src, suffix)]
      overflow == \E i \in 1..Len(mapped) : WireLen(mapped[i]) > MaxName
  IN IF res = "panic" THEN "panic"
     ELSE IF overflow THEN (IF res = "err" THEN "" ELSE "a rewritten name exceeds the maximum length but the call succeeded")
     ELSE IF res # "ok" THEN "the call failed although no rewritten name is too long"
     ELSE IF ~WellFormed(out) THEN "output rejected by the policy: " \o WhyNot(out)
     ELSE IF SkelOf(out) # SkelOf(pkt) THEN "something that is not a name changed (header, counts, order, types, classes, TTLs, opaque data or OPT)"
     ELSE LET outs == NamesOf(out) IN
          IF Len(outs) # Len(mapped) THEN "number of names changed"
          ELSE IF \E i \in 1..Len(mapped) : LowerLabels(outs[i]) # LowerLabels(mapped[i])
               THEN "name " \o ToString(CHOOSE i \in 1..Len(mapped) : LowerLabels(outs[i]) # LowerLabels(mapped[i])) \o " (wire order) is not the expected one"
               ELSE ""
====
