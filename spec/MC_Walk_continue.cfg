CONSTANTS
  MaxN = 4
  FixSkip = TRUE
  Restart = FALSE
SPECIFICATION Spec
INVARIANTS InBounds NeverYieldDeleted NeverYieldOptWhenSkipping SectionIsSurvivors AtEnd Bounded
PROPERTY Terminates
CHECK_DEADLOCK FALSE
