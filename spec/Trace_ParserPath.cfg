CONSTANTS
  MaxLabel = 63
  MaxName = 255
  MaxRefs = 16
  Bug = "none"
INIT PathInit
NEXT PathNext
CHECK_DEADLOCK FALSE
