---- MODULE Trace_CompressImpl ----
(* Compares the output of the real Compress::compress with the output of its TLA+ transcription, byte *)
(* for byte, on recorded calls.  A difference is a NOTE (another choice of suffixes is no violation of *)
(* C06); agreement shows that the transcription model-checked by MC_CompressImpl is this code's algorithm. *)
EXTENDS CompressImpl, Json, IOUtils
Rec == ndJsonDeserialize(IOEnv.TRACE)
VARIABLES l, done
Init == l \in 1..Len(Rec) /\ done = 0
Next == /\ done = 0 /\ done' = 1 /\ l' = l
        /\ LET e == Rec[l] IN
           IF e.k # "compress" \/ e.out.k # "ok" \/ ~WellFormed(e.pkt) \/ ~PointerFreePkt(e.pkt)
           THEN PrintT("@@IMPL|" \o ToString(l) \o "|skipped")
           ELSE PrintT("@@IMPL|" \o ToString(l) \o "|" \o (IF CompressOut(e.pkt) = e.out.b THEN "same" ELSE "different"))
====
