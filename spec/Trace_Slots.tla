---- MODULE Trace_Slots ----
(***************************************************************************)
(* C16: trace validation of thread schedules against the Slots machine.    *)
(* One event per schedule: the steps in the order the coordinator released *)
(* them; a failing step logs the text the same failure has natively, a     *)
(* reading step the description retrieved on that thread.  The trace is    *)
(* accepted iff it is a behaviour of Slots with private slots: every read  *)
(* returns that thread's most recent failure.                              *)
(***************************************************************************)
EXTENDS Naturals, Sequences, FiniteSets, TLC, Json, IOUtils

Rec == ndJsonDeserialize(IOEnv.TRACE)
VARIABLES l, done
Init == l \in 1..Len(Rec) /\ done = 0
Once == done = 0 /\ done' = 1 /\ l' = l
Report(tag, why) == PrintT("@@" \o tag \o "|" \o ToString(l) \o "|" \o why)

RECURSIVE Fold(_, _, _)
Fold(steps, i, last) ==     \* last: thread -> text of its most recent failure
  IF i > Len(steps) THEN ""
  ELSE LET s == steps[i] IN
       IF s.a = "X" THEN "a thread died"
       ELSE IF s.a = "F" THEN
            IF s.ret # 0 - 1 THEN "a call that must fail returned " \o ToString(s.ret)
            ELSE Fold(steps, i + 1, [last EXCEPT ![s.t] = s.text])
       ELSE IF s.text # last[s.t]
            THEN "thread " \o ToString(s.t) \o " read '" \o s.text \o "' but its most recent failure is '" \o last[s.t] \o "'"
            ELSE Fold(steps, i + 1, last)
\* The same judgement without recursion, for schedules with tens of thousands of steps (TLC's cost per recursive
\* call grows with the depth of the recursion): step i is judged on its own; the most recent failure of the reading
\* thread is the step just before it, or else found among all earlier steps.
BadStep(steps, i) ==
  LET s == steps[i] IN
  IF s.a = "X" THEN "a thread died"
  ELSE IF s.a = "F" THEN (IF s.ret # 0 - 1 THEN "a call that must fail returned " \o ToString(s.ret) ELSE "")
  ELSE LET mine == IF i > 1 /\ steps[i - 1].t = s.t /\ steps[i - 1].a = "F" THEN steps[i - 1].text
                   ELSE LET js == {j \in 1..(i - 1) : steps[j].t = s.t /\ steps[j].a = "F"} IN
                        IF js = {} THEN "<none>" ELSE steps[CHOOSE j \in js : \A k \in js : k <= j].text IN
       IF s.text # mine
       THEN "thread " \o ToString(s.t) \o " read '" \o s.text \o "' but its most recent failure is '" \o mine \o "'"
       ELSE ""
Flat(steps) ==
  IF \E i \in 1..Len(steps) : BadStep(steps, i) # "" THEN BadStep(steps, CHOOSE i \in 1..Len(steps) : BadStep(steps, i) # "") ELSE ""
C16Why(e) ==
  IF e.k \in {"hang", "abort"} THEN "the library " \o e.k \o "s"
  ELSE IF Len(e.steps) # Len(e.order) THEN "schedule not completed"
  ELSE IF Len(e.steps) > 10000 THEN Flat(e.steps)
  ELSE Fold(e.steps, 1, [t \in 1..e.n |-> "<none>"])
Interleaved(e) == \E i \in 1..(Len(e.order) - 2) : e.order[i] # e.order[i + 1] /\ e.order[i + 1] # e.order[i + 2]
C16(e) == LET w == C16Why(e) IN
          /\ PrintT("@@FACT|" \o ToString(l) \o "|" \o (IF e.k = "sched" /\ Interleaved(e) THEN "alternating" ELSE "plain"))
          /\ (IF w = "" THEN TRUE ELSE Report("VIOLATION-C16", w))
NextC16 == Once /\ C16(Rec[l])
====
