---- MODULE Trace_Walk ----
(* C11: trace validation of walks with deletions, one event per walk. *)
EXTENDS History, Json, IOUtils
Rec == ndJsonDeserialize(IOEnv.TRACE)
VARIABLES l, done
Init == l \in 1..Len(Rec) /\ done = 0
Once == done = 0 /\ done' = 1 /\ l' = l
\* the driver process was killed by the scenario (abort, stack overflow) or made no progress (hang)
Died(e) == e.k \in {"hang", "abort"}
Report(tag, why) == PrintT("@@" \o tag \o "|" \o ToString(l) \o "|" \o why)
C11(e) == LET w == WalkWhy(e) IN
          /\ PrintT("@@FACT|" \o ToString(l) \o "|" \o (IF w = "-" THEN "skipped" ELSE e.sec \o (IF e.incl THEN "+opt" ELSE "") \o "|" \o ToString(Len(e.del) + (IF e.del_q THEN 1 ELSE 0)) \o "|" \o ToString(Len(e.ys))))
          /\ (IF w \in {"", "-"} THEN TRUE ELSE Report("VIOLATION-C11", w))
NextC11 == Once /\ (IF Died(Rec[l]) THEN Report("VIOLATION-C11", "the library " \o Rec[l].k \o "s") ELSE C11(Rec[l]))
====
