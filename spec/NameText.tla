---- MODULE NameText ----
(***************************************************************************)
(* C14: presentation-format host names <-> wire names.                     *)
(*                                                                         *)
(* Declarative reading (property level):                                   *)
(*   Pieces(t)      the dot-separated labels of the text, one trailing     *)
(*                  empty piece (absolute name) dropped                    *)
(*   Expected(t,z)  labels of the result: the pieces, followed by the      *)
(*                  zone's labels unless the text ends in a dot            *)
(*   MustAccept / MustReject   the two sets the statement fixes; texts in  *)
(*                  neither (63-byte labels, wire lengths 254..255, bytes  *)
(*                  >= 128, control characters) are not judged             *)
(* Implementation-shaped: Conv, the character-by-character machine of      *)
(* copy_raw_name_from_str (src/synth/gen.rs:24-70) with its three caps.    *)
(* LabelCap and OutCap are constants so that MC_NameText can scale them.   *)
(***************************************************************************)
EXTENDS Message

CONSTANTS LabelCap,   \* longest label the converter is required to accept (62)
          OutCap      \* longest wire name it is required to accept (253)

Dot == 46
RECURSIVE Split(_, _, _, _)
Split(t, i, cur, acc) ==
  IF i > Len(t) THEN (IF cur = <<>> /\ Len(t) > 0 /\ t[Len(t)] = Dot THEN acc ELSE IF Len(t) = 0 THEN acc ELSE Append(acc, cur))
  ELSE IF t[i] = Dot THEN Split(t, i + 1, <<>>, Append(acc, cur)) ELSE Split(t, i + 1, Append(cur, t[i]), acc)
Pieces(t) == IF t = <<Dot>> THEN <<>> ELSE Split(t, 1, <<>>, <<>>)
Absolute(t) == Len(t) > 0 /\ t[Len(t)] = Dot
LDHU(b) == (b >= 97 /\ b <= 122) \/ (b >= 65 /\ b <= 90) \/ (b >= 48 /\ b <= 57) \/ b = 45 \/ b = 95

ZoneLabels(zone) == IF zone = <<>> THEN <<>> ELSE UName(zone, 0).labels
Expected(t, zone) ==
  LET ps == Pieces(t) IN
  IF zone # <<>> /\ ~Absolute(t) /\ Len(t) > 0 THEN ps \o ZoneLabels(zone) ELSE ps
MustAccept(t, zone) ==
  LET ps == Pieces(t) IN
  /\ Len(t) > 0
  /\ \A i \in 1..Len(ps) : Len(ps[i]) >= 1 /\ Len(ps[i]) <= LabelCap /\ \A k \in 1..Len(ps[i]) : LDHU(ps[i][k])
  /\ WireLen(Expected(t, zone)) <= OutCap
MustReject(t, zone) ==
  LET ps == Pieces(t) IN
  \/ \E i \in 1..Len(ps) : Len(ps[i]) = 0           \* empty interior or leading label
  \/ \E i \in 1..Len(ps) : Len(ps[i]) > LabelCap + 1 \* label longer than 63
  \/ WireLen(Expected(t, zone)) > OutCap + 2         \* name longer than 255

\* "" when a conversion result (res in ok/err/panic, wire) obeys the statement
ConvWhy(t, zone, res, wire) ==
  IF res = "panic" THEN "conversion panicked"
  ELSE IF MustAccept(t, zone) /\ res # "ok" THEN "a name the statement requires to be accepted was rejected"
  ELSE IF MustReject(t, zone) /\ res # "err" THEN "a name the statement requires to be rejected was accepted"
  ELSE IF res = "ok" THEN
       LET n == UName(wire, 0) IN
       IF ~n.ok \/ n.end # Len(wire) THEN "the result is not a well-formed pointer-free wire name"
       ELSE IF Len(wire) > OutCap + 2 THEN "the result is longer than 255 bytes"
       ELSE IF \E i \in 1..Len(n.labels) : Len(n.labels[i]) > LabelCap + 1 THEN "a label of the result is longer than 63 bytes"
       ELSE IF Len(t) > 0 /\ n.labels # Expected(t, zone) THEN "the labels of the result are not the dot-separated labels of the input"
       ELSE ""
  ELSE ""
ReadBackText(t, zone) == NameText(Expected(t, zone))

----------------------------------------------------------------------------
(* the converter as a machine: one character per step *)
ConvStep(st, t, c, i) ==
  IF st.err # "" THEN st
  ELSE IF c = Dot /\ st.ll = 0 THEN (IF Len(t) # 1 THEN [st EXCEPT !.err = "spurious-dot"] ELSE st)
  ELSE IF c = Dot THEN [st EXCEPT !.out = @ \o <<st.ll>> \o SubSeq(t, st.start, i - 1), !.ll = 0]
  ELSE IF st.ll >= LabelCap THEN [st EXCEPT !.err = "label-too-long"]
  ELSE IF c > 128 THEN [st EXCEPT !.err = "non-ascii"]
  ELSE IF st.ll = 0 THEN [st EXCEPT !.start = i, !.ll = 1]
  ELSE [st EXCEPT !.ll = @ + 1]
RECURSIVE ConvRun(_, _, _)
ConvRun(st, t, i) == IF i > Len(t) THEN st ELSE ConvRun(ConvStep(st, t, t[i], i), t, i + 1)
Conv(t, zone) ==
  IF Len(t) > OutCap THEN [res |-> "err", wire |-> <<>>]
  ELSE LET st == ConvRun([out |-> <<>>, ll |-> 0, start |-> 1, err |-> ""], t, 1) IN
       IF st.err # "" THEN [res |-> "err", wire |-> <<>>]
       ELSE LET w == IF st.ll = 0 THEN Append(st.out, 0)
                     ELSE st.out \o <<st.ll>> \o SubSeq(t, st.start, Len(t)) \o (IF zone = <<>> THEN <<0>> ELSE zone) IN
            IF Len(w) > OutCap THEN [res |-> "err", wire |-> <<>>] ELSE [res |-> "ok", wire |-> w]
====
