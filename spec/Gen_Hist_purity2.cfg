CONSTANTS
  Ops = {"c0", "c1", "c2", "c3", "c4", "c5", "c6", "c7", "c8", "c9", "c10", "c11", "c12", "c13", "c14", "c15", "c16", "c17", "c18", "c19", "c20", "c21", "c22", "c23", "c24", "c25", "c26", "c27", "c28", "c29", "c30", "c31", "c32", "c33", "c34", "c35", "c36", "c37", "c38"}
  MaxLen = 2
INIT Init
NEXT Next
CHECK_DEADLOCK FALSE
