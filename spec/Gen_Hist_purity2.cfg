CONSTANTS
  Ops = {"c0", "c1", "c2", "c3", "c4", "c5", "c6", "c7", "c8", "c9", "c10", "c11", "c12", "c13", "c14", "c15", "c16"}
  MaxLen = 2
INIT Init
NEXT Next
CHECK_DEADLOCK FALSE
