---- MODULE History ----
(***************************************************************************)
(* The mutable packet object as the properties C08, C09, C10 and C11 see   *)
(* it: a step relation between (bytes, view) before and after one API      *)
(* operation.                                                              *)
(*                                                                         *)
(*   C08  after every step the bytes are structurally acceptable and the   *)
(*        object's view of them equals the view of a fresh parse           *)
(*   C09  the decoded message changes exactly as the operation says        *)
(*   C10  a failed operation leaves the decoded message unchanged; insert  *)
(*        obeys the size limit whatever the starting size                  *)
(*   C11  walks with deletions (see WalkWhy)                               *)
(*                                                                         *)
(* Every recorded step carries the bytes before and after, so the relation *)
(* is evaluated step by step (the full state of the object is the bytes    *)
(* plus its public fields; both are logged).                               *)
(***************************************************************************)
EXTENDS Rename, Header

MaxUncompressed == 8192

----------------------------------------------------------------------------
(* canonical messages *)

CRecX(p, r) == LET c == Canon(p, r) IN
  [n |-> r.labels, t |-> r.type, c |-> r.class, ttl |-> r.ttl, names |-> c.names, fixed |-> FixedOf(r, c)]
CSecX(p, rs) == [i \in 1..Len(rs) |-> CRecX(p, rs[i])]
CMsgX(p) == LET m == DecodeT(p) IN
  [id |-> SubSeq(p, 1, 2), word |-> U16(p, 2),
   q |-> [i \in 1..Len(m.q) |-> [n |-> m.q[i].labels, t |-> m.q[i].type, c |-> m.q[i].class]],
   an |-> CSecX(p, m.an), ns |-> CSecX(p, m.ns), ar |-> CSecX(p, m.ar)]
LowerRec(r) == [r EXCEPT !.n = LowerLabels(@), !.names = [k \in 1..Len(@) |-> LowerLabels(@[k])]]
LowerMsg(m) == [m EXCEPT !.q = [i \in 1..Len(@) |-> [@[i] EXCEPT !.n = LowerLabels(@)]],
                         !.an = [i \in 1..Len(@) |-> LowerRec(@[i])],
                         !.ns = [i \in 1..Len(@) |-> LowerRec(@[i])],
                         !.ar = [i \in 1..Len(@) |-> LowerRec(@[i])]]

SecOf(m, s) == CASE s = "AN" -> m.an [] s = "NS" -> m.ns [] s = "AR" -> m.ar [] s = "Q" -> m.q
WithSec(m, s, v) == CASE s = "AN" -> [m EXCEPT !.an = v] [] s = "NS" -> [m EXCEPT !.ns = v]
                      [] s = "AR" -> [m EXCEPT !.ar = v] [] s = "Q" -> [m EXCEPT !.q = v]
RemoveAt(sq, i) == SubSeq(sq, 1, i - 1) \o SubSeq(sq, i + 1, Len(sq))

\* size of the pointer-free form of a structurally acceptable packet
RecUSize(r) == WireLen(r.n) + 10 + (LET RECURSIVE S(_) S(k) == IF k > Len(r.names) THEN 0 ELSE WireLen(r.names[k]) + S(k + 1) IN S(1)) + Len(r.fixed)
SecUSize(rs) == LET RECURSIVE S(_) S(k) == IF k > Len(rs) THEN 0 ELSE RecUSize(rs[k]) + S(k + 1) IN S(1)
USize(m) == 12 + (IF Len(m.q) = 0 THEN 0 ELSE WireLen(m.q[1].n) + 4) + SecUSize(m.an) + SecUSize(m.ns) + SecUSize(m.ar)

----------------------------------------------------------------------------
(* C08: view of the object = view of a fresh parse *)

\* v: logged public fields; p: bytes.  "" when coherent
ViewWhy(v, p) ==
  LET f == FreshView(p)  m == DecodeT(p) IN
  IF v.oq # f.oq \/ v.oan # f.oan \/ v.ons # f.ons \/ v.oar # f.oar THEN "section offsets differ from a fresh parse"
  ELSE IF v.oedns # f.oedns THEN "offset of the EDNS options differs from a fresh parse"
  ELSE IF v.ecount # f.ecount THEN "EDNS option count differs from a fresh parse"
  ELSE IF v.ver # f.ver \/ v.xrcode # f.xrcode \/ v.xflags # f.xflags THEN "EDNS version / extended rcode / extended flags differ from a fresh parse"
  ELSE IF ~v.mc /\ ~PointerFreeT(p) THEN "the object says the bytes hold no compression pointer but they do"
  ELSE IF v.cached # <<>> /\ (Len(m.q) # 1 \/ v.cached[1].raw0 # RawName(m.q[1].labels)
                               \/ v.cached[1].type # m.q[1].type \/ v.cached[1].class # m.q[1].class)
       THEN "the cached question differs from the question in the bytes"
  ELSE ""

\* the real parser's opinion of the bytes must be the specification's (and its view the fresh view)
ReparseWhy(rp, p) ==
  IF rp.res = "panic" THEN "re-parsing the bytes panics"
  ELSE IF (rp.res = "ok") # (PolicyOK(p) /\ Structural(p)) THEN "a fresh parse of the bytes disagrees with the policy"
  ELSE IF rp.res = "ok" /\ ViewWhy([rp.view EXCEPT !.cached = <<>>], p) # "" THEN "fresh parse reports another view than the specification"
  ELSE ""

StateWhy(v, p, rp) ==
  IF Len(p) < 12 THEN "the object no longer holds a packet (reading its bytes panics)"
  ELSE IF ~Structural(p) THEN "the bytes are no longer acceptable: " \o WhyNot(WithQ(WithQR(p)))
  ELSE LET w == ViewWhy(v, p) IN IF w # "" THEN w ELSE ReparseWhy(rp, p)

----------------------------------------------------------------------------
(* cursor scripts *)

\* the records a reader of section s walks (positions in the decoded section)
\* the EDNS options of the OPT record (the pseudo-section "E" an EDNS reader walks)
EdnsOpts(p) == LET m == DecodeT(p) IN IF HasOpt(m) THEN OptExt(p, OptOf(m).name_end + 10, OptOf(m).next, <<>>) ELSE <<>>

Walked(p, s, incl) ==
  LET m == DecodeT(p) IN
  IF s = "E" THEN [i \in 1..Len(EdnsOpts(p)) |-> i]
  ELSE IF s = "Q" THEN [i \in 1..Len(m.q) |-> i]
  ELSE LET rs == SecOf(m, s) IN
       IF s = "AR" /\ ~incl THEN SelectSeq([i \in 1..Len(rs) |-> i], LAMBDA i : rs[i].type # TOPT)
       ELSE [i \in 1..Len(rs) |-> i]

\* the cursor observation o designates record idx of section s in bytes p
Designates(o, p, s, idx) ==
  IF s = "E" THEN
       LET os == EdnsOpts(p) IN
       /\ ~o.tomb /\ idx >= 1 /\ idx <= Len(os)
       /\ o.off = os[idx].off /\ o.name_end = os[idx].off /\ o.next = os[idx].next
       /\ o.type = os[idx].code /\ o.class = os[idx].len /\ o.raw = SubSeq(p, os[idx].off + 1, os[idx].next)
  ELSE
  LET m == DecodeT(p)  rs == SecOf(m, s) IN
  /\ ~o.tomb /\ idx >= 1 /\ idx <= Len(rs)
  /\ o.off = rs[idx].off /\ o.name_end = rs[idx].name_end /\ o.next = rs[idx].next
  /\ o.raw = RawName(rs[idx].labels) /\ o.type = rs[idx].type /\ o.class = rs[idx].class
  /\ (s # "Q" => o.ttl = rs[idx].ttl)

ValidNewName(arg) == LET n == UName(arg, 0) IN n.ok /\ CName(SubSeq(arg, 1, n.end), 0).ok
NewLabels(arg) == UName(arg, 0).labels

\* Folds the sub-steps of a cursor script.  st = [p (bytes), idx (position in the section, 0 = tombstone),
\* mc (flag before the sub-step)].  Returns "" or the first complaint.
RECURSIVE SubsWhy(_, _, _, _, _, _)
SubsWhy(subs, k, st, s, incl, strict) ==
  IF k > Len(subs) THEN ""
  ELSE LET u == subs[k] IN
  IF u.res = "end" THEN
       \* advancing past the last record ends the script
       IF st.idx = 0 THEN ""      \* after a deletion the reader restarts; C11 judges what it yields
       ELSE LET w == Walked(st.p, s, incl) IN
            IF \E j \in 1..Len(w) : w[j] > st.idx THEN "the reader ended although records follow the cursor" ELSE ""
  ELSE LET a == CMsgX(st.p)  b == CMsgX(u.bytes)
           rs == SecOf(a, s)
           policy == PolicyOK(st.p)
           \* operations that must decompress first cannot work on a packet the parser rejects
           mayFail == st.mc /\ ~policy
           unchanged == b = a
           stay == IF st.idx = 0 THEN u.obs.tomb ELSE Designates(u.obs, u.bytes, s, st.idx)
           next1 == [p |-> u.bytes, idx |-> st.idx, mc |-> u.view.mc]
       IN
       IF u.res = "panic" THEN "panic in " \o u.s
       ELSE IF Len(u.bytes) < 12 THEN "after " \o u.s \o " the object no longer holds a packet"
       ELSE IF ~Structural(u.bytes) THEN "after " \o u.s \o " the bytes are no longer acceptable: " \o WhyNot(WithQ(WithQR(u.bytes)))
       ELSE IF ViewWhy(u.view, u.bytes) # "" THEN "after " \o u.s \o ": " \o ViewWhy(u.view, u.bytes)
       ELSE IF u.res = "na" THEN        \* the operation does not exist for this kind of cursor
            (IF ~unchanged THEN "the message changed although nothing was done"
             ELSE IF ~stay THEN "the cursor moved although nothing was done"
             ELSE SubsWhy(subs, k + 1, next1, s, incl, strict))
       ELSE
       CASE u.s = "set_raw_name" ->
              IF st.idx = 0 THEN (IF u.res = "err" /\ unchanged /\ u.obs.tomb THEN SubsWhy(subs, k + 1, next1, s, incl, strict) ELSE "set_raw_name on a deleted record's cursor must fail and change nothing")
              ELSE LET isOpt == s # "Q" /\ rs[st.idx].t = TOPT
                       good == ValidNewName(u.arg) /\ (isOpt => NewLabels(u.arg) = <<>>)
                       want == WithSec(a, s, [rs EXCEPT ![st.idx].n = NewLabels(u.arg)]) IN
                   IF u.res = "ok" THEN
                        IF ~good THEN "set_raw_name accepted a name the parser rejects"
                        ELSE IF b # want THEN "set_raw_name: the message is not the old one with only that owner name replaced"
                        ELSE IF ~stay THEN "after set_raw_name the cursor no longer designates its record"
                        ELSE SubsWhy(subs, k + 1, next1, s, incl, strict)
                   ELSE IF ~unchanged THEN "a failed set_raw_name changed the message"
                   \* a packet cannot grow beyond 65535 bytes
                   ELSE IF good /\ USize(a) - WireLen(rs[st.idx].n) + WireLen(NewLabels(u.arg)) > 65535
                        THEN (IF ~stay THEN "after a failed set_raw_name the cursor no longer designates its record" ELSE SubsWhy(subs, k + 1, next1, s, incl, strict))
                   ELSE IF good /\ ~mayFail /\ strict THEN "set_raw_name rejected a valid name: " \o u.e
                   ELSE IF ~stay THEN "after a failed set_raw_name the cursor no longer designates its record"
                   ELSE SubsWhy(subs, k + 1, next1, s, incl, strict)
         [] u.s = "delete" ->
              IF st.idx = 0 THEN (IF u.res = "err" /\ u.e = "Void record" /\ unchanged /\ u.obs.tomb THEN SubsWhy(subs, k + 1, next1, s, incl, strict)
                                  ELSE "a second delete through the same cursor must report a void record and change nothing")
              ELSE IF u.res = "ok" THEN
                        IF b # WithSec(a, s, RemoveAt(rs, st.idx)) THEN "delete: the message is not the old one without exactly that record"
                        ELSE IF ~u.obs.tomb THEN "after delete the cursor is not a tombstone"
                        ELSE SubsWhy(subs, k + 1, [next1 EXCEPT !.idx = 0], s, incl, strict)
                   ELSE IF ~unchanged THEN "a failed delete changed the message"
                   ELSE IF ~mayFail /\ strict THEN "delete failed: " \o u.e
                   ELSE IF ~stay THEN "after a failed delete the cursor no longer designates its record"
                   ELSE SubsWhy(subs, k + 1, next1, s, incl, strict)
         [] u.s = "uncompress" ->
              IF ~unchanged THEN "in-place decompression changed the message"
              ELSE IF u.res = "ok" /\ st.idx # 0 /\ ~PointerFreeT(u.bytes) /\ st.mc THEN "in-place decompression left a pointer"
              ELSE IF u.res # "ok" /\ ~mayFail /\ strict THEN "in-place decompression failed: " \o u.e
              ELSE IF ~stay THEN "after in-place decompression the cursor no longer designates its record"
              ELSE SubsWhy(subs, k + 1, next1, s, incl, strict)
         [] u.s = "set_ttl" ->
              IF u.res = "na" THEN (IF unchanged THEN SubsWhy(subs, k + 1, next1, s, incl, strict) ELSE "message changed")
              ELSE IF b # WithSec(a, s, [rs EXCEPT ![st.idx].ttl = u.arg]) THEN "set_rr_ttl: the message is not the old one with only that TTL replaced"
              ELSE IF ~stay THEN "after set_rr_ttl the cursor no longer designates its record"
              ELSE SubsWhy(subs, k + 1, next1, s, incl, strict)
         [] u.s = "set_ip" ->
              IF u.res = "na" THEN (IF unchanged THEN SubsWhy(subs, k + 1, next1, s, incl, strict) ELSE "message changed")
              ELSE LET r == rs[st.idx]  fits == (r.t = TA /\ Len(u.arg) = 4) \/ (r.t = TAAAA /\ Len(u.arg) = 16) IN
                   IF fits THEN
                        IF u.res # "ok" THEN "set_rr_ip failed on a record of the right family"
                        ELSE IF b # WithSec(a, s, [rs EXCEPT ![st.idx].fixed = u.arg]) THEN "set_rr_ip: the message is not the old one with only that address replaced"
                        ELSE IF ~stay THEN "after set_rr_ip the cursor no longer designates its record"
                        ELSE SubsWhy(subs, k + 1, next1, s, incl, strict)
                   ELSE IF u.res = "ok" THEN "set_rr_ip succeeded on a record without such an address"
                   ELSE IF ~unchanged THEN "a failed set_rr_ip changed the message"
                   ELSE SubsWhy(subs, k + 1, next1, s, incl, strict)
         [] u.s = "next" ->
              IF ~unchanged THEN "advancing the cursor changed the message"
              ELSE LET w == Walked(st.p, s, incl) IN
                   IF st.idx = 0 THEN
                        \* restart after a deletion: whatever is yielded must be a record the reader walks
                        IF \E j \in 1..Len(w) : Designates(u.obs, u.bytes, s, w[j])
                        THEN SubsWhy(subs, k + 1, [next1 EXCEPT !.idx = CHOOSE x \in {w[j] : j \in 1..Len(w)} : Designates(u.obs, u.bytes, s, x)], s, incl, strict)
                        ELSE "after a deletion the reader yields something that is not a record of the section"
                   ELSE LET later == {w[j] : j \in {j \in 1..Len(w) : w[j] > st.idx}} IN
                        IF later = {} THEN "the reader yields a record although none follows the cursor"
                        ELSE LET nx == CHOOSE x \in later : \A y \in later : x <= y IN
                             IF Designates(u.obs, u.bytes, s, nx) THEN SubsWhy(subs, k + 1, [next1 EXCEPT !.idx = nx], s, incl, strict)
                             ELSE "advancing the cursor does not yield the record that follows"
         [] OTHER -> "unknown sub-step " \o u.s

CursorWhy(e, strict) ==
  LET o == e.o  w == Walked(e.pre, o.sec, o.incl) IN
  IF o.adv + 1 > Len(w) THEN
       IF ~e.has_first /\ CMsgX(e.post) = CMsgX(e.pre) THEN "" ELSE "a reader yields a record that is not there"
  ELSE IF ~e.has_first THEN "a reader did not reach record " \o ToString(o.adv + 1) \o " of its section"
  ELSE IF ~Designates(e.first, e.pre, o.sec, w[o.adv + 1]) THEN "the reader's record " \o ToString(o.adv + 1) \o " is not the record in the bytes"
  ELSE IF ~e.completed THEN "cursor script did not complete"
  ELSE SubsWhy(e.subs, 1, [p |-> e.pre, idx |-> w[o.adv + 1], mc |-> e.mc0], o.sec, o.incl, strict)

----------------------------------------------------------------------------
(* effect of the non-cursor operations (C09) and failed operations (C10) *)

MapRec(r, tgt, src, sfx) == [r EXCEPT !.n = Replace(r.n, tgt, src, sfx),
                                      !.names = [k \in 1..Len(r.names) |-> Replace(r.names[k], tgt, src, sfx)]]
MapMsg(m, tgt, src, sfx) ==
  [m EXCEPT !.q = [i \in 1..Len(m.q) |-> [m.q[i] EXCEPT !.n = Replace(m.q[i].n, tgt, src, sfx)]],
            !.an = [i \in 1..Len(m.an) |-> MapRec(m.an[i], tgt, src, sfx)],
            !.ns = [i \in 1..Len(m.ns) |-> MapRec(m.ns[i], tgt, src, sfx)],
            !.ar = [i \in 1..Len(m.ar) |-> MapRec(m.ar[i], tgt, src, sfx)]]
AllNamesOf(m) == [i \in 1..Len(m.q) |-> m.q[i].n]
                 \o (LET rs == m.an \o m.ns \o m.ar
                         RECURSIVE F(_) F(i) == IF i > Len(rs) THEN <<>> ELSE <<rs[i].n>> \o rs[i].names \o F(i + 1) IN F(1))

\* EDNS options laid out back to back fill the OPT data exactly
RECURSIVE OptionsOK(_, _)
OptionsOK(d, k) == IF k = Len(d) THEN TRUE
                   ELSE IF Len(d) - k < 4 THEN FALSE
                   ELSE LET n == d[k + 3] * 256 + d[k + 4] IN
                        IF Len(d) - k - 4 < n THEN FALSE ELSE OptionsOK(d, k + 4 + n)
RECURSIVE OptionCount(_, _)
OptionCount(d, k) == IF k >= Len(d) THEN 0 ELSE 1 + OptionCount(d, k + 4 + d[k + 3] * 256 + d[k + 4])

\* A name may be written through a pointer into the 12-byte header (the parser accepts it): such a name changes when
\* a header field is set, and nobody can prevent that.  For packets that contain a pointer below offset 12 the header
\* setters are therefore judged on the header and the record counts only (the state predicate C08 still applies in
\* full: whatever the object remembers about the question must follow the bytes).
PointsIntoHeader(p) == \E k \in 13..(Len(p) - 1) : p[k] >= 192 /\ (p[k] - 192) * 256 + p[k + 1] < 12
HdrOnly(m) == [id |-> m.id, word |-> m.word, nq |-> Len(m.q), nan |-> Len(m.an), nns |-> Len(m.ns), nar |-> Len(m.ar)]
SameAsFar(b, want, pre) == IF PointsIntoHeader(pre) THEN HdrOnly(b) = HdrOnly(want) ELSE b = want

\* strict: the step is also required to succeed when no reason for failure applies
EffectWhy(e, strict) ==
  LET a == CMsgX(e.pre)  b == CMsgX(e.post)  o == e.o  w == a.word
      policy == PolicyOK(e.pre)
      mayFail == e.mc0 /\ ~policy          \* must re-parse first, and the parser rejects the bytes
      failOK == IF b = a THEN "" ELSE "a failed " \o o.op \o " changed the message"
  IN
  CASE o.op = "set_tid" -> IF SameAsFar(b, [a EXCEPT !.id = <<o.v \div 256, o.v % 256>>], e.pre) THEN "" ELSE "set_tid: effect"
    [] o.op = "set_flags" -> IF SameAsFar(b, [a EXCEPT !.word = SetFlagsA(w, o.lo)], e.pre) THEN "" ELSE "set_flags: effect"
    [] o.op = "set_rcode" -> IF SameAsFar(b, [a EXCEPT !.word = SetRcodeA(w, o.v)], e.pre) THEN "" ELSE "set_rcode: effect"
    [] o.op = "set_opcode" -> IF SameAsFar(b, [a EXCEPT !.word = SetOpcodeA(w, o.v)], e.pre) THEN "" ELSE "set_opcode: effect"
    [] o.op = "set_response" -> IF SameAsFar(b, [a EXCEPT !.word = SetQRA(w, o.v)], e.pre) THEN "" ELSE "set_response: effect"
    [] o.op = "recompute" ->
         IF b # a THEN "recompute changed the message"
         ELSE IF e.res = "ok" /\ ~e.view.mc /\ ~PointerFreeT(e.post) THEN "recompute declared the bytes pointer-free without decompressing"
         ELSE IF e.res # "ok" /\ ~mayFail /\ strict THEN "recompute failed: " \o e.e ELSE ""
    [] o.op = "read_question" ->
         IF b # a THEN "reading the question changed the message"
         ELSE IF Len(a.q) = 0 THEN
              (IF e.got.text = <<>> /\ e.got.raw0 = <<>> /\ e.got.qq1 = <<>> THEN "" ELSE "question getters return something although there is no question")
         ELSE LET q == a.q[1] IN
              IF e.got.text = <<>> \/ e.got.raw0 = <<>> \/ e.got.raw = <<>> \/ e.got.text2 = <<>> THEN "question getters return nothing although there is a question"
              ELSE IF e.got.text[1].n # NameText(q.n) \/ e.got.text[1].t # q.t \/ e.got.text[1].c # q.c THEN "question() differs from the question in the bytes"
              ELSE IF e.got.raw0[1].n # RawName(q.n) \/ e.got.raw0[1].t # q.t \/ e.got.raw0[1].c # q.c THEN "question_raw0() differs from the question in the bytes"
              ELSE IF e.got.raw[1].n # SubSeq(RawName(q.n), 1, WireLen(q.n) - 1) THEN "question_raw() differs from the question in the bytes"
              ELSE IF e.got.text2 # e.got.text \/ e.got.qq1 # <<q.t, q.c>> \/ e.got.qq2 # <<q.t, q.c>> THEN "question getters differ before / after the cache is filled"
              ELSE ""
    [] o.op = "insert" ->
         LET sec == SecOf(a, o.sec)
             full == Len(sec) >= 65535
             tooBig == ~o.rec.bad /\ USize(a) + RecUSize(o.rec.r) > MaxUncompressed
             want == WithSec(a, o.sec, Append(sec, o.rec.r))
             \* an OPT pseudo-record is subject to message-level rules, like a second question
             optBad == ~o.rec.bad /\ o.rec.r.t = TOPT
                         /\ (o.sec # "AR" \/ HasOpt(DecodeT(e.pre)) \/ o.rec.r.n # <<>> \/ ~OptionsOK(o.rec.r.fixed, 0)) IN
         IF e.res = "ok" THEN
              IF o.rec.bad THEN "malformed record text was inserted"
              ELSE IF optBad THEN "an OPT record was inserted where the parser does not accept one"
              ELSE IF b # want THEN "insert: the message is not the old one with the record appended to that section"
              ELSE IF Len(e.post) > MaxUncompressed THEN "insert produced a packet larger than the maximum uncompressed size"
              ELSE ""
         ELSE IF failOK # "" THEN failOK
         ELSE IF tooBig THEN (IF e.e = "Packet too large" \/ mayFail THEN "" ELSE "an insertion that would exceed the size limit failed with another error: " \o e.e)
         ELSE IF ~o.rec.bad /\ ~optBad /\ ~full /\ ~mayFail /\ strict THEN "insert failed: " \o e.e
         ELSE ""
    [] o.op = "insert_q" ->
         IF e.res = "ok" THEN
              IF Len(a.q) # 0 THEN "a second question was inserted"
              ELSE IF b # [a EXCEPT !.q = <<[n |-> o.labels, t |-> 28, c |-> 1]>>] THEN "insert into the question section: effect"
              ELSE ""
         ELSE IF failOK # "" THEN failOK
         ELSE IF Len(a.q) = 0 /\ ~mayFail /\ strict /\ USize(a) + WireLen(o.labels) + 4 <= MaxUncompressed THEN "inserting the only question failed: " \o e.e
         ELSE ""
    [] o.op = "rename" ->
         LET tgt == UName(o.target, 0).labels  src == UName(o.source, 0).labels
             mapped == MapMsg(a, tgt, src, o.suffix)
             ns == AllNamesOf(mapped)
             overflow == \E i \in 1..Len(ns) : WireLen(ns[i]) > MaxName IN
         IF e.res = "ok" THEN
              IF overflow THEN "rename succeeded although a rewritten name is too long"
              ELSE IF LowerMsg(b) # LowerMsg(mapped) THEN "rename: the message is not the old one with exactly the matching names rewritten"
              ELSE ""
         ELSE IF failOK # "" THEN failOK
         ELSE IF ~overflow /\ policy /\ strict /\ GoodName(o.target) /\ GoodName(o.source) THEN "rename failed: " \o e.e
         ELSE ""
    [] o.op = "cursor" -> CursorWhy(e, strict)
    [] OTHER -> ""

----------------------------------------------------------------------------
(* C11: a walk over one section that deletes the records whose identity is in e.del.  Records *)
(* are identified by their TTL bytes (the scenario gives every record of the section its own), *)
(* the question by its position.                                                               *)

IdxOfTtl(orig, ttl) == IF \E i \in 1..Len(orig) : orig[i].ttl = ttl THEN CHOOSE i \in 1..Len(orig) : orig[i].ttl = ttl ELSE 0
\* position, in the current section, of original record i given the set of records still alive
PosOf(alive, i) == Cardinality({j \in alive : j <= i})
Survivors(orig, alive) == SelectSeq([i \in 1..Len(orig) |-> i], LAMBDA i : i \in alive)

RECURSIVE YieldsWhy(_, _, _, _, _, _, _)
YieldsWhy(e, k, p, alive, seen, a0, orig) ==
  LET s == e.sec IN
  IF k > Len(e.ys) THEN
       \* end of the walk
       LET walk == IF s = "AR" /\ ~e.incl THEN {i \in alive : orig[i].t # TOPT} ELSE alive IN
       IF ~(walk \subseteq seen) THEN "a surviving record was never yielded"
       ELSE IF e.post # p THEN "the packet changed after the last yield"
       ELSE StateWhy(e.view, e.post, e.reparse)
  ELSE LET y == e.ys[k]
           i == IF s = "Q" THEN (IF Len(orig) = 1 THEN 1 ELSE 0) ELSE IF y.obs.tomb THEN 0 ELSE IdxOfTtl(orig, y.obs.ttl)
           inD == IF s = "Q" THEN e.del_q ELSE \E j \in 1..Len(e.del) : i # 0 /\ e.del[j] = orig[i].ttl
           alive2 == IF inD THEN alive \ {i} ELSE alive
           want == WithSec(a0, s, [j \in 1..Cardinality(alive2) |-> orig[Survivors(orig, alive2)[j]]])
       IN
       IF i = 0 THEN "the walk yields something that is not a record of the section"
       ELSE IF i \notin alive THEN "a deleted record is yielded again"
       ELSE IF s = "AR" /\ ~e.incl /\ orig[i].t = TOPT THEN "the OPT-skipping reader yields the OPT record"
       ELSE IF ~Designates(y.obs, p, s, PosOf(alive, i)) THEN "a yielded cursor does not designate a record of the current bytes"
       ELSE IF y.hit # inD THEN "driver and specification disagree on the identity of the yielded record"
       ELSE IF Len(y.bytes) < 12 THEN "the object lost its packet"
       ELSE IF ~Structural(y.bytes) THEN "after a deletion the bytes are no longer acceptable: " \o WhyNot(WithQ(WithQR(y.bytes)))
       ELSE IF ViewWhy(y.view, y.bytes) # "" THEN "during the walk: " \o ViewWhy(y.view, y.bytes)
       ELSE IF CMsgX(y.bytes) # want THEN (IF inD THEN "the deletion did not remove exactly the record under the cursor" ELSE "the message changed although nothing was deleted")
       ELSE IF inD /\ (y.d1 # "ok" \/ ~y.tomb) THEN "delete failed or left a live cursor: " \o y.d1e
       ELSE IF inD /\ e.twice /\ ~(y.d2 = "err" /\ y.d2e = "Void record") THEN "a second delete through the same cursor did not report a void record"
       ELSE YieldsWhy(e, k + 1, y.bytes, alive2, seen \cup {i}, a0, orig)

WalkWhy(e) ==
  IF e.res = "panic" THEN "panic during the walk"
  ELSE IF e.res = "too-many-yields" THEN "the walk does not terminate within the bound on yields"
  ELSE IF ~WellFormed(e.pre) THEN "-"
  ELSE LET a0 == CMsgX(e.pre)  orig == SecOf(a0, e.sec) IN
       IF e.sec # "Q" /\ \E i, j \in 1..Len(orig) : i # j /\ orig[i].ttl = orig[j].ttl THEN "-"     \* identities not unique: not a C11 scenario
       ELSE YieldsWhy(e, 1, e.pre, 1..Len(orig), {}, a0, orig)

\* C09: the EDNS data as seen through the object's own reader equal the options in the bytes
EdnsReadWhy(e) ==
  LET m == DecodeT(e.post) IN
  IF e.edns.res # "ok" THEN "the EDNS options read through the object: reader panics"
  ELSE LET want == IF HasOpt(m) THEN LET o == OptOf(m) IN OptExt(e.post, o.name_end + 10, o.next, <<>>) ELSE <<>> IN
       IF Len(e.edns.opts) # Len(want) \/ \E i \in 1..Len(want) : e.edns.opts[i] # <<want[i].off, want[i].next>>
       THEN "the EDNS options read through the object differ from the options in the bytes"
       ELSE ""

\* C08 + C09 + C10 for one recorded step; "-" when the step starts from bytes that already are unacceptable
StepWhy(e, strict) ==
  IF e.res = "panic" THEN "panic in " \o e.o.op
  ELSE IF ~Structural(e.pre) THEN "-"
  \* setting a header field of a packet whose names reach into the header can make those names anything: the
  \* caller's doing, as far as the bytes go (what the object remembers is still judged when the bytes stay decodable)
  ELSE IF e.o.op \in {"set_tid", "set_flags", "set_rcode", "set_opcode", "set_response"} /\ PointsIntoHeader(e.pre)
          /\ Len(e.post) >= 12 /\ ~Structural(e.post) THEN ""
  ELSE LET s == StateWhy(e.view, e.post, e.reparse)
           s1 == IF s = "" THEN "" ELSE "after " \o e.o.op \o ": " \o s IN
       \* bytes that cannot be decoded any more: nothing else can be said
       IF Len(e.post) < 12 \/ ~Structural(e.post) THEN s1
       \* otherwise every class of complaint is reported (state: C08; effect: C09 / C10; read-back of EDNS data: C09),
       \* so that each property's check sees its own
       ELSE LET w == EffectWhy(e, strict)
                r == EdnsReadWhy(e)
                Glue2(a, b) == IF a = "" THEN b ELSE IF b = "" THEN a ELSE a \o " ;; " \o b IN
            Glue2(Glue2(s1, w), r)
====
