CONSTANTS
  MaxLabel = 63
  MaxName = 255
  MaxRefs = 16
  Count = 1
  Stride = 41868361
  Offset = 1
  NS1 = 120
  MaxSuffixes = 32
  MaxSuffixLen = 127
  PtrLimit = 16384
  ImplBug = "none"
  ObjDefect = "stale-cursor"
INIT MCInit
NEXT MCNext
CHECK_DEADLOCK FALSE
