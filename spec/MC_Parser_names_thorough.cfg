CONSTANTS
  MaxLabel = 2
  MaxName = 6
  MaxRefs = 2
  Mode = "names"
  Alphabet = {0, 1, 2, 3, 97, 192}
  MaxBody = 6
  Bug = "none"
SPECIFICATION NameSpec
INVARIANTS NoBadRead CursorInBounds NameAgree NameStepBound
PROPERTY Terminates
CHECK_DEADLOCK FALSE
