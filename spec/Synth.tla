---- MODULE Synth ----
(***************************************************************************)
(* C13: record text -> wire record.                                        *)
(* The structured record a text denotes is                                 *)
(*   [n (owner labels), t, ttl (4 bytes), names (label sequences inside    *)
(*    the data), fixed (bytes of the data that are not names), txt]        *)
(* and WireRR gives its RFC 1035 wire form:                                *)
(*   A / AAAA   fixed = the address                                        *)
(*   NS CNAME PTR   the name                                               *)
(*   MX         fixed (preference, 2 bytes) then the name                  *)
(*   SOA        two names then fixed (five 32-bit values)                  *)
(*   TXT        txt split into character-strings of at most 255 bytes      *)
(*   DS         fixed = key tag, algorithm, digest type, digest            *)
(* Class is always IN.  Texts are produced by the scenario generator from  *)
(* the same structured record, so TLC never parses text.                   *)
(***************************************************************************)
EXTENDS Message

B16(x) == <<x \div 256, x % 256>>
TTXT == 16
TDS == 43

RECURSIVE Chunks(_)
Chunks(b) == IF Len(b) = 0 THEN <<>>
             ELSE IF Len(b) <= 255 THEN <<Len(b)>> \o b
             ELSE <<255>> \o SubSeq(b, 1, 255) \o Chunks(SubSeq(b, 256, Len(b)))

RData(r) ==
  IF r.t \in {TNS, TCNAME, TPTR} THEN RawName(r.names[1])
  ELSE IF r.t = TMX THEN r.fixed \o RawName(r.names[1])
  ELSE IF r.t = TSOA THEN RawName(r.names[1]) \o RawName(r.names[2]) \o r.fixed
  ELSE IF r.t = TTXT THEN Chunks(r.txt)
  ELSE r.fixed
WireRR(r) == LET rd == RData(r) IN RawName(r.n) \o B16(r.t) \o <<0, 1>> \o r.ttl \o B16(Len(rd)) \o rd

\* a byte string is a well-formed record iff a minimal response carrying it as its only answer is accepted
Wrap(w) == <<0, 0, 128, 0, 0, 1, 0, 1, 0, 0, 0, 0, 0, 0, 1, 0, 1>> \o w
WellFormedRR(w) == WellFormed(Wrap(w))

\* e = [expect ("ok" / "err" / "any"), rec, res ("ok" / "err" / "panic"), wire, ins (insertions into a valid packet)]
SynthWhy(e) ==
  IF e.res = "panic" THEN "synthesis panicked"
  ELSE IF e.expect = "ok" /\ e.res # "ok" THEN "text of the supported grammar was rejected: " \o e.err
  ELSE IF e.expect = "err" /\ e.res # "err" THEN "text the grammar excludes was accepted"
  ELSE IF e.res # "ok" THEN ""
  ELSE IF e.expect = "ok" /\ e.wire # WireRR(e.rec) THEN "the synthesised bytes are not the RFC 1035 wire form of the record"
  ELSE IF ~WellFormedRR(e.wire) THEN "the synthesised bytes are not a well-formed record: " \o WhyNot(Wrap(e.wire))
  ELSE IF \E i \in 1..Len(e.ins) : e.ins[i].res = "panic" THEN "inserting the record panicked"
  ELSE IF \E i \in 1..Len(e.ins) : e.ins[i].res = "ok" /\ ~WellFormed(e.ins[i].bytes) THEN "after inserting the record the packet is rejected by the policy"
  ELSE IF e.expect = "ok" /\ \E i \in 1..Len(e.ins) : e.ins[i].res # "ok" THEN "a well-formed record could not be inserted into a small valid packet"
  ELSE ""
====
