---- MODULE Header ----
(***************************************************************************)
(* The 16-bit flag word of the DNS header, as fields and as masks.         *)
(*                                                                         *)
(*   bit 15 QR | 14..11 opcode | 10 AA | 9 TC | 8 RD | 7 RA | 6 Z | 5 AD   *)
(*   | 4 CD | 3..0 rcode                                                   *)
(*                                                                         *)
(* The field view (records) is how the properties C04 / C12 speak; the     *)
(* mask view (0x87F0 / 0x7800 / 0x000F) is how the code works; the         *)
(* arithmetic view (\div, %) is what the trace specifications evaluate     *)
(* because it is fast in TLC.  MC_Header checks that the three coincide on *)
(* all 65 536 words.                                                       *)
(***************************************************************************)
EXTENDS Naturals, Bitwise

Word == 0..65535
FlagMask == 34800        \* 0x87F0: QR AA TC RD RA Z AD CD
OpcodeMask == 30720      \* 0x7800
RcodeMask == 15          \* 0x000F

Bit(w, k) == (w \div (2 ^ k)) % 2

Fields(w) == [qr |-> Bit(w, 15), opcode |-> (w \div 2048) % 16, aa |-> Bit(w, 10), tc |-> Bit(w, 9), rd |-> Bit(w, 8),
              ra |-> Bit(w, 7), z |-> Bit(w, 6), ad |-> Bit(w, 5), cd |-> Bit(w, 4), rcode |-> w % 16]
WordOf(f) == f.qr * 32768 + f.opcode * 2048 + f.aa * 1024 + f.tc * 512 + f.rd * 256 + f.ra * 128 + f.z * 64
             + f.ad * 32 + f.cd * 16 + f.rcode

\* arithmetic view
FlagBitsA(w) == (w \div 32768) * 32768 + ((w % 2048) \div 16) * 16
OpcodeA(w) == (w \div 2048) % 16
RcodeA(w) == w % 16

\* setters, on fields (the statement of C12) ...
SetFlagsFields(w, a) == LET f == Fields(w)  g == Fields(a % 65536) IN
  WordOf([f EXCEPT !.qr = g.qr, !.aa = g.aa, !.tc = g.tc, !.rd = g.rd, !.ra = g.ra, !.z = g.z, !.ad = g.ad, !.cd = g.cd])
SetOpcodeFields(w, v) == WordOf([Fields(w) EXCEPT !.opcode = v % 16])
SetRcodeFields(w, v) == WordOf([Fields(w) EXCEPT !.rcode = v % 16])
SetQRFields(w, b) == WordOf([Fields(w) EXCEPT !.qr = IF b THEN 1 ELSE 0])
\* ... and arithmetically (what the trace specifications evaluate)
SetFlagsA(w, a) == (w - FlagBitsA(w)) + FlagBitsA(a % 65536)
SetOpcodeA(w, v) == w - OpcodeA(w) * 2048 + (v % 16) * 2048
SetRcodeA(w, v) == w - RcodeA(w) + (v % 16)
SetQRA(w, b) == (w % 32768) + (IF b THEN 32768 ELSE 0)
\* ... and with masks (what the code is meant to do)
SetFlagsM(w, a) == ((w & (OpcodeMask + RcodeMask)) | ((a % 65536) & FlagMask))
====
