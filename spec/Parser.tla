---- MODULE Parser ----
(***************************************************************************)
(* Operational model of DNSSector::parse (src/dns_sector.rs:228-532) and   *)
(* of the two name walkers (src/compress.rs:31-95, dns_sector.rs:536-567): *)
(* a cursor machine that mirrors the code's control flow, one action per   *)
(* loop iteration / guarded block.  It is the implementation-shaped        *)
(* counterpart of the declarative policy in Wire.tla; TLC checks that the  *)
(* two presentations agree (C02), that every byte access of the machine    *)
(* was preceded by a guard that makes it legal (C01), that the machine     *)
(* terminates (C01) and that its step counter obeys the linear bound (C18).*)
(*                                                                         *)
(* The state is one record `s`; the packet is `pkt`.  Every byte access    *)
(* goes through Rd, which records an illegal index in s.bad instead of     *)
(* failing, so that "never reads outside the buffer" is an invariant.      *)
(***************************************************************************)
EXTENDS Wire

VARIABLES pkt, s

\* defect switch for negative controls: "none" is the design; any other value plants one defect that the
\* invariants below must detect (mc/ negative controls)
CONSTANT Bug

N == Len(pkt)

\* byte at offset i; index outside the packet is remembered by the caller through BadIdx
Rd(i) == IF i < N THEN pkt[i + 1] ELSE 0
Rd16(i) == Rd(i) * 256 + Rd(i + 1)

NoWalk == [mode |-> "-", cur |-> 0, barrier |-> 0, lowest |-> 0, refs |-> 0, nlen |-> 0, fin |-> 0]

Init0(p) ==
  [pc |-> "header", off |-> 0, sec |-> "Q", left |-> 0, start |-> 0, rdlen |-> 0, after |-> "",
   w |-> NoWalk, nend |-> 0, ednsEnd |-> 0, ednsSeen |-> FALSE, ednsCount |-> 0,
   steps |-> 0, bad |-> FALSE, result |-> ""]

Stop(st, why) == [st EXCEPT !.pc = "done", !.result = "err:" \o why]
\* marks an access outside the buffer (must never happen: invariant NoBadRead)
Touch(st, idxs) == IF \E i \in idxs : i >= N THEN [st EXCEPT !.bad = TRUE] ELSE st

\* start walking a name at offset o; `after` is the pc to continue with once s.nend is known
StartWalk(st, mode, o, after) ==
  IF o >= N THEN Stop(st, "name:offset-outside")
  ELSE [st EXCEPT !.pc = "walk", !.after = after,
                  !.w = [mode |-> mode, cur |-> o, barrier |-> N, lowest |-> o, refs |-> MaxRefs, nlen |-> 0, fin |-> 0]]

\* one iteration of the loop of check_compressed_name (mode "c") / check_uncompressed_name ("u")
WalkStep(st0) ==
  LET st == [st0 EXCEPT !.steps = @ + 1]  w == st.w  cur == w.cur IN
  IF w.mode = "c" /\ cur >= (IF Bug = "no-barrier" THEN N ELSE w.barrier) THEN Stop(st, "name:segment-overrun")
  ELSE IF w.mode = "u" /\ cur >= N THEN Stop(st, "name:truncated")
  ELSE LET b == Rd(cur)  t1 == Touch(st, {cur}) IN
    IF b >= 192 THEN
      IF w.mode = "u" THEN Stop(t1, "name:pointer-in-pointer-free-name")
      ELSE IF w.refs = 0 THEN Stop(t1, "name:too-many-pointers")
      ELSE IF 2 > N - cur THEN Stop(t1, "name:pointer-truncated")
      ELSE LET r == (b - 192) * 256 + Rd(cur + 1)  t2 == Touch(t1, {cur + 1}) IN
           IF r = cur \/ r >= w.lowest THEN Stop(t2, "name:pointer-not-backward")
           ELSE LET t3 == Touch(t2, {r}) IN
                IF Rd(r) = 0 THEN Stop(t3, "name:pointer-to-root")
                ELSE [t3 EXCEPT !.w = [w EXCEPT !.cur = r, !.barrier = w.lowest, !.lowest = r, !.refs = IF Bug = "no-refs-dec" THEN @ ELSE @ - 1,
                                                 !.fin = IF w.fin = 0 THEN cur + 2 ELSE w.fin]]
    ELSE IF b > MaxLabel THEN Stop(t1, "name:label-too-long")
    ELSE IF (IF Bug = "label-guard" THEN b > N - cur ELSE b >= N - cur) THEN Stop(t1, "name:label-truncated")
    ELSE IF w.nlen + b + 1 > MaxName THEN Stop(t1, "name:name-too-long")
    ELSE LET t2 == Touch(t1, {cur + k : k \in 1..b}) IN
         IF w.mode = "c" /\ \E k \in 1..b : BadChar(Rd(cur + k)) THEN Stop(t2, "name:bad-char")
         ELSE IF b = 0
              THEN [t2 EXCEPT !.pc = st.after, !.w = NoWalk, !.nend = IF w.fin = 0 THEN cur + 1 ELSE w.fin]
              ELSE [t2 EXCEPT !.w = [w EXCEPT !.cur = cur + b + 1, !.nlen = @ + b + 1]]

\* be16_load(k) relative to the cursor needs k + 2 remaining bytes
Need(st, k) == N - st.off >= k

\* section bookkeeping: which section comes next, and how many records it announces
NextSec(sec) == CASE sec = "Q" -> "AN" [] sec = "AN" -> "NS" [] sec = "NS" -> "AR" [] OTHER -> "END"
CountOf(sec) == CASE sec = "AN" -> Rd16(6) [] sec = "NS" -> Rd16(8) [] sec = "AR" -> Rd16(10) [] OTHER -> 0
IsResponse == Rd(2) >= 128

\* leave the current record / question and decide what comes next
Dispatch(st) ==
  IF st.left > 0 THEN [st EXCEPT !.pc = "rr"]
  ELSE LET ns == NextSec(st.sec) IN
       IF ns = "END" THEN
            IF N - st.off > 0 THEN Stop(st, "trailing-bytes") ELSE [st EXCEPT !.pc = "done", !.result = "ok"]
       ELSE LET c == CountOf(ns) IN
            IF ns \in {"AN", "NS"} /\ ~IsResponse /\ c > 0 THEN Stop(st, "query-with-answers")
            ELSE [st EXCEPT !.sec = ns, !.left = c, !.pc = "dispatch"]

Step(st) ==
  CASE st.pc = "header" ->
         IF N < 12 THEN Stop(st, "header-truncated")
         ELSE IF Rd16(4) # 1 THEN Stop(st, "question-count")
         ELSE IF 12 >= N THEN Stop(st, "qname:offset-outside")      \* set_offset(12)
         ELSE StartWalk([st EXCEPT !.off = 12, !.steps = @ + 1], "c", 12, "qfixed")   \* parse_question
    [] st.pc = "walk" -> WalkStep(st)
    [] st.pc = "qfixed" ->
         LET t == [st EXCEPT !.off = st.nend] IN
         IF ~Need(t, 4) THEN Stop(t, "question-truncated")
         ELSE LET t2 == Touch(t, {t.off + 2, t.off + 3}) IN
              IF Rd16(t.off + 2) # 1 THEN Stop(t2, "question-class")
              ELSE [t2 EXCEPT !.off = t.off + 4, !.pc = "dispatch", !.left = 0]
    [] st.pc = "dispatch" -> Dispatch(st)
    [] st.pc = "rr" ->                                               \* parse_rr: owner name
         StartWalk([st EXCEPT !.start = st.off, !.left = @ - 1, !.steps = @ + 1], "c", st.off, "rfixed")
    [] st.pc = "rfixed" ->
         LET t == [st EXCEPT !.off = st.nend] IN
         IF ~Need(t, 2) \/ ~Need(t, 10) THEN Stop(t, "fixed-part-truncated")
         ELSE LET t2 == Touch(t, {t.off, t.off + 1, t.off + 8, t.off + 9})
                  ty == Rd16(t.off)  rdl == Rd16(t.off + 8)  t3 == [t2 EXCEPT !.rdlen = rdl] IN
           IF ty = TOPT THEN
                IF t.sec # "AR" THEN Stop(t3, "opt-placement")
                ELSE IF t.off - t.start # 1 THEN Stop(t3, "opt-owner-not-root")
                ELSE IF t.ednsSeen /\ Bug # "opt-dup" THEN Stop(t3, "opt-duplicate")
                ELSE LET o2 == t.off + 10 IN                          \* increment_offset(10): 10 bytes remain
                     IF N - o2 < rdl THEN Stop(t3, "rdata-truncated")
                     ELSE [t3 EXCEPT !.off = o2, !.ednsSeen = TRUE, !.ednsEnd = o2 + rdl, !.ednsCount = 0, !.pc = "opts"]
           ELSE IF ty \in {TNS, TCNAME, TPTR} THEN
                IF rdl = 0 THEN Stop(t3, "name-rdata-shape")
                ELSE StartWalk([t3 EXCEPT !.off = t.off + 10], "c", t.off + 10, "rdname")
           ELSE IF ty = TMX THEN
                IF rdl <= 2 THEN Stop(t3, "mx-rdata-shape")
                ELSE StartWalk([t3 EXCEPT !.off = t.off + 10], "c", t.off + 12, "rdname")
           ELSE IF ty = TSOA THEN
                IF rdl <= 21 THEN Stop(t3, "soa-rdata-shape")
                ELSE StartWalk([t3 EXCEPT !.off = t.off + 10], "c", t.off + 10, "soa2")
           ELSE IF ty = TDNAME THEN
                IF rdl = 0 THEN Stop(t3, "dname-rdata-shape")
                ELSE StartWalk([t3 EXCEPT !.off = t.off + 10], "u", t.off + 10, "rdname")
           ELSE IF ty = TA /\ rdl # 4 THEN Stop(t3, "a-size")
           ELSE IF ty = TAAAA /\ rdl # 16 THEN Stop(t3, "aaaa-size")
           ELSE IF N - t.off < 10 + rdl THEN Stop(t3, "rdata-truncated")
           ELSE [t3 EXCEPT !.off = t.off + 10 + rdl, !.pc = "dispatch"]
    [] st.pc = "soa2" -> StartWalk(st, "c", st.nend, "soaend")
    [] st.pc = "soaend" ->
         \* final_offset_2 - offset != rdlen - 20 (rdlen > 21 here); then increment_offset(rdlen)
         IF st.nend - st.off # st.rdlen - 20 THEN Stop(st, "soa-rdata-shape")
         ELSE IF N - st.off < st.rdlen THEN Stop(st, "rdata-truncated")
         ELSE [st EXCEPT !.off = st.off + st.rdlen, !.pc = "dispatch"]
    [] st.pc = "rdname" ->
         IF st.nend - st.off # st.rdlen THEN Stop(st, "name-rdata-shape")
         ELSE IF N - st.off < st.rdlen THEN Stop(st, "rdata-truncated")
         ELSE [st EXCEPT !.off = st.off + st.rdlen, !.pc = "dispatch"]
    [] st.pc = "opts" ->                                             \* one EDNS option per step
         IF st.ednsEnd - st.off = 0 THEN [st EXCEPT !.pc = "dispatch"]
         ELSE LET t == [st EXCEPT !.steps = @ + 1] IN
              IF st.ednsEnd - st.off < 4 THEN Stop(t, "options-do-not-tile")
              ELSE LET t2 == Touch(t, {st.off + 2, st.off + 3})  inc == 4 + Rd16(st.off + 2) IN
                   IF st.ednsEnd - st.off < inc THEN Stop(t2, "options-do-not-tile")
                   ELSE [t2 EXCEPT !.off = st.off + inc, !.ednsCount = @ + 1]
    [] st.pc = "namedone" -> [st EXCEPT !.pc = "done", !.result = "ok"]   \* stand-alone name check
    [] OTHER -> st

Terminal == s.pc = "done"

Init == pkt \in {} /\ s = Init0(pkt)        \* overridden by the MC modules (universe of packets)
Next == ~Terminal /\ s' = Step(s) /\ UNCHANGED pkt
vars == <<pkt, s>>
Spec == Init /\ [][Next]_vars /\ WF_vars(Next)

\* the machine run to completion as a function (used by generators and trace notes)
RECURSIVE RunFrom(_, _)
RunFrom(st, fuel) == IF st.pc = "done" \/ fuel = 0 THEN st ELSE RunFrom(Step(st), fuel - 1)

----------------------------------------------------------------------------
(* Properties *)

\* C01: every access was inside the buffer, the cursor never leaves it
NoBadRead == ~s.bad
CursorInBounds == s.off <= N /\ (s.pc = "walk" => s.w.cur <= N)
EdnsWindow == s.pc = "opts" => (s.off <= s.ednsEnd /\ s.ednsEnd <= N)
\* C01: termination (checked as a temporal property under weak fairness)
Terminates == <>Terminal
\* variant for termination: a measure that strictly decreases (lexicographic, flattened)
\* C02: the verdict of the machine is the verdict of the declarative policy
Agree == Terminal => ((s.result = "ok") <=> WellFormed(pkt))
\* the stand-alone walkers agree with the declarative readers (verdict and end offset)
AgreeName(mode, off) ==
  Terminal => LET r == IF mode = "c" THEN CName(pkt, off) ELSE UName(pkt, off) IN
              /\ (s.result = "ok") <=> r.ok
              /\ (r.ok => s.nend = r.end)
\* same clause family (informational strengthening: the two presentations fail for related reasons)
\* C18: the step counter obeys the linear bound
StepsPerRecord == 2 * (MaxRefs + (MaxName + 1) \div 2) + 1
StepBound == s.steps * 14 <= StepsPerRecord * N + 14 * (3 * (MaxRefs + (MaxName + 1) \div 2) + 2)
====
