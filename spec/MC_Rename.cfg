CONSTANTS
  MaxLabel = 63
  MaxName = 7
  MaxRefs = 16
  MaxLabels = 3
INIT Init
NEXT Next
CHECK_DEADLOCK FALSE
