CONSTANTS
  Names = {"n3", "n5"}
  MaxRecs = 1
  MaxOps = 3
  BugEdnsShift = FALSE
  BugCache = FALSE
  BugIterUncompress = FALSE
  BugDelOpt = TRUE
  BugSkipLeft = FALSE
  BugRecompute = FALSE
INIT Init2
NEXT Next
INVARIANTS NoBad ViewCoherent EdnsCoherent FlagSound CacheCoherent CursorCoherent
CHECK_DEADLOCK FALSE
