CONSTANTS
  MaxLabel = 63
  MaxName = 255
  MaxRefs = 16
  ObjDefect = "none"
INIT Init
NEXT NextUnc
CHECK_DEADLOCK FALSE
