CONSTANTS
  MaxLabel = 63
  MaxName = 255
  MaxRefs = 16
  MaxSuffixes = 32
  MaxSuffixLen = 127
  PtrLimit = 16384
  ImplBug = "none"
  ObjDefect = "none"
INIT Init
NEXT NextUnc
CHECK_DEADLOCK FALSE
