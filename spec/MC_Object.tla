---- MODULE MC_Object ----
(***************************************************************************)
(* The mutable packet object as a state machine, byte level.               *)
(*                                                                         *)
(* State: the bytes p, the object's bookkeeping v (four section offsets,   *)
(* EDNS offset and option count, pointer flag), an optional cursor (open   *)
(* on a section, with or without OPT skipping).  Actions are the           *)
(* transcribed operations of ObjectImpl: open a reader, advance it (with   *)
(* restart after a deletion), set_raw_name / delete / in-place             *)
(* decompression / set_rr_ttl through it, close it; insert_rr, recompute   *)
(* and rename_with_raw_names on the object itself.  A failing operation leaves the state   *)
(* unchanged.  TLC explores every behaviour of at most MaxOps operations   *)
(* from every Gen_S1 message NS1 selects, in the pointer-free and in both  *)
(* compressed layouts.                                                     *)
(*                                                                         *)
(* Invariants (the object-level design satisfies C08):                     *)
(*   Acceptable   the bytes are structurally acceptable                    *)
(*   Coherent     the bookkeeping equals the fresh view of the bytes       *)
(*   FlagSound    "no pointer" is only claimed for pointer-free bytes      *)
(*   CursorSound  an open, live cursor designates a record of its section  *)
(*   CacheSound   a filled question cache holds the question of the bytes  *)
(* Action property (C09 / C10):                                            *)
(*   Effect       every step changes the decoded message exactly as the    *)
(*                operation says (History's WithSec / RemoveAt / Append),  *)
(*                failed steps change nothing                              *)
(* ObjDefect switches are the negative controls.                           *)
(***************************************************************************)
EXTENDS Gen_S1, ObjectImpl

CONSTANTS NS1, MaxOps

NewNames == << <<0>>, <<1, 122, 0>>, <<40>> \o [x \in 1..40 |-> 119] \o <<3, 111, 114, 103, 0>> >>
NewRecs == << [n |-> <<<<105>>>>, t |-> 1, c |-> 1, ttl |-> <<0, 0, 0, 9>>, names |-> <<>>, fixed |-> <<1, 2, 3, 4>>],
              [n |-> <<>>, t |-> TOPT, c |-> 255, ttl |-> <<1, 0, 128, 0>>, names |-> <<>>, fixed |-> <<0, 10, 0, 2, 7, 7>>],
              [n |-> <<<<113>>, <<101, 120>>>>, t |-> TMX, c |-> 1, ttl |-> <<0, 0, 0, 7>>, names |-> << <<<<109>>, <<101, 120>>>> >>, fixed |-> <<0, 5>>] >>
\* (target, source, suffix mode): raw names over the Gen_S1 name universe
Renames == << [t |-> <<2, 122, 122, 0>>, s |-> <<1, 97, 0>>, x |-> TRUE],
              [t |-> <<1, 99, 0>>, s |-> <<1, 66, 1, 97, 0>>, x |-> FALSE],
              [t |-> <<63>> \o [k \in 1..63 |-> 116] \o <<63>> \o [k \in 1..63 |-> 116] \o <<63>> \o [k \in 1..63 |-> 116] \o <<60>> \o [k \in 1..60 |-> 116] \o <<0>>,
               s |-> <<1, 97, 0>>, x |-> TRUE] >>          \* a 254-byte target: any kept prefix overflows
Secs == {"Q", "AN", "NS", "AR", "E"}          \* "E": the EDNS options
NoCur == [open |-> FALSE, sec |-> "Q", incl |-> FALSE, c |-> [off |-> 0, ne |-> 0, nx |-> 0, tomb |-> TRUE]]

\* the sample always contains a compressible message whose OPT record carries options and is preceded by records
WithOptions(j) == LET m == Msg(Index(j)) IN
  /\ \E k \in 1..Len(m.ar) : m.ar[k].type = TOPT /\ Len(m.ar[k].d.opts) >= 1
  /\ Len(m.an) >= 1 /\ Encode(m, "greedy") # Encode(m, "plain")
WithOptionsIdx == CHOOSE j \in 1..400 : WithOptions(j)

VARIABLES p, v, cur, n, last, cq        \* cq: the cached question, <<>> or <<value>>
mvars == <<p, v, cur, n, last, cq, i, done>>

MCInit == /\ i = 0 /\ done = 0 /\ n = 0 /\ cur = NoCur /\ cq = <<>> /\ last = [op |-> "init", ok |-> TRUE, sec |-> "Q", idx |-> 0, arg |-> 0, before |-> <<>>]
          /\ \E kk \in (1..NS1) \cup {WithOptionsIdx}, lay \in {"plain", "greedy", "tails"} :
               /\ p = Encode(Msg(Index(kk)), lay)
               /\ v = ViewMC(p, lay # "plain")

St == [p |-> p, v |-> v, c |-> cur.c]
IdxOf(bytes, sec, off) == IF sec = "E" THEN LET os == EdnsOpts(bytes) IN StartIdx([j \in 1..Len(os) |-> os[j].off], off)
                          ELSE LET rs == SecOf(DecodeT(bytes), sec) IN StartIdx([j \in 1..Len(rs) |-> rs[j].off], off)
Adopt(pr, op, sec, arg, cnew) ==
  /\ p' = IF pr.ok THEN pr.p ELSE p
  /\ v' = IF pr.ok THEN pr.v ELSE v
  /\ cur' = cnew
  /\ last' = [op |-> op, ok |-> pr.ok, sec |-> sec, idx |-> IF cur.open /\ ~cur.c.tomb THEN IdxOf(p, sec, cur.c.off) ELSE 0, arg |-> arg, before |-> p]
  /\ n' = n + 1 /\ UNCHANGED <<i, done>>
  \* the cache keeps its value unless the operation resets it (the question getters fill it: ReadQ)
  /\ cq' = IF CacheFilledAfter(op, pr.ok, cq # <<>>, v.mc, QD(p) = 1) THEN cq ELSE <<>>

\* a fresh reader is a cursor without a current record: its first next() reads the section's count and offset
Open(sec, incl) ==
  /\ ~cur.open
  /\ LET fresh == [p |-> p, v |-> v, c |-> NoCur.c]
         pr == IF sec = "E" THEN SubNextE(fresh) ELSE SubNext(fresh, sec, incl) IN
     /\ pr.ok
     /\ Adopt([ok |-> TRUE, p |-> p, v |-> v], "open", sec, 0, [open |-> TRUE, sec |-> sec, incl |-> incl, c |-> pr.c])
Advance ==
  /\ cur.open
  /\ LET pr == IF cur.sec = "E" THEN SubNextE(St) ELSE SubNext(St, cur.sec, cur.incl) IN
     Adopt([ok |-> TRUE, p |-> p, v |-> v], "next", cur.sec, 0, IF pr.ok THEN [cur EXCEPT !.c = pr.c] ELSE NoCur)
Close == cur.open /\ Adopt([ok |-> TRUE, p |-> p, v |-> v], "close", cur.sec, 0, NoCur)
SetName(a) ==
  /\ cur.open /\ cur.sec # "E"
  /\ LET pr == SubSetRawName(St, cur.sec, NewNames[a]) IN Adopt(pr, "set", cur.sec, a, IF pr.ok THEN [cur EXCEPT !.c = pr.c] ELSE cur)
Del ==
  /\ cur.open /\ cur.sec # "E"
  /\ LET pr == SubDelete(St, cur.sec) IN Adopt(pr, "del", cur.sec, 0, IF pr.ok THEN [cur EXCEPT !.c = pr.c] ELSE cur)
Unc ==
  /\ cur.open
  /\ LET pr == IF cur.sec = "E" THEN SubUncompressE(St) ELSE SubUncompress(St, cur.sec) IN Adopt(pr, "unc", cur.sec, 0, IF pr.ok THEN [cur EXCEPT !.c = pr.c] ELSE cur)
Ttl ==
  /\ cur.open /\ ~cur.c.tomb /\ cur.sec \notin {"Q", "E"}
  /\ LET pr == SubSetTtl(St, <<222, 173, 190, 239>>) IN Adopt(pr, "ttl", cur.sec, 0, cur)
Ins(sec, r) ==
  /\ ~cur.open /\ sec \notin {"Q", "E"}
  /\ LET pr == ObjInsert(p, v.mc, sec, NewRecs[r]) IN
     Adopt([ok |-> pr.ok, p |-> pr.p, v |-> [oq |-> pr.v.oq, oan |-> pr.v.oan, ons |-> pr.v.ons, oar |-> pr.v.oar, oedns |-> pr.v.oedns, ecount |-> pr.v.ecount, mc |-> FALSE]],
           "ins", sec, r, NoCur)
Recompute ==
  /\ ~cur.open
  /\ LET q == IF v.mc THEN UncompressOut(p) ELSE p IN Adopt([ok |-> TRUE, p |-> q, v |-> ViewMC(q, FALSE)], "recompute", "Q", 0, NoCur)

Ren(k) ==
  /\ ~cur.open /\ QD(p) = 1
  /\ LET pr == ObjRename(p, Renames[k].t, Renames[k].s, Renames[k].x) IN
     Adopt([ok |-> pr.ok, p |-> pr.p, v |-> IF pr.ok THEN pr.v ELSE v], "ren", "Q", k, NoCur)

\* question(), question_raw0(), question_raw(): fill the cache from the bytes
ReadQ == /\ ~cur.open /\ QD(p) = 1 /\ cq = <<>>
         /\ cq' = <<CacheOf(p)>>
         /\ last' = [op |-> "readq", ok |-> TRUE, sec |-> "Q", idx |-> 0, arg |-> 0, before |-> p]
         /\ n' = n + 1 /\ UNCHANGED <<p, v, cur, i, done>>

MCNext == /\ n < MaxOps
          /\ \/ \E sec \in Secs, incl \in BOOLEAN : (incl => sec = "AR") /\ Open(sec, incl)
             \/ Advance \/ Close \/ Del \/ Unc \/ Ttl \/ Recompute \/ ReadQ
             \/ \E a \in 1..Len(NewNames) : SetName(a)
             \/ \E sec \in Secs, r \in 1..Len(NewRecs) : Ins(sec, r)
             \/ \E k \in 1..Len(Renames) : Ren(k)
MCSpec == MCInit /\ [][MCNext]_mvars

NoFlag(w) == [oq |-> w.oq, oan |-> w.oan, ons |-> w.ons, oar |-> w.oar, oedns |-> w.oedns, ecount |-> w.ecount]
Acceptable == Structural(p)
Coherent == NoFlag(v) = ViewOf(p)
FlagSound == ~v.mc => PointerFreeT(p)
CursorSound == (cur.open /\ ~cur.c.tomb) =>
                 /\ IdxOf(p, cur.sec, cur.c.off) # 0
                 /\ cur.c = IF cur.sec = "E" THEN OptionAt(p, cur.c.off) ELSE CursorAtC(p, cur.sec, cur.c.off)
                 /\ (cur.sec = "AR" /\ ~cur.incl => U16(p, cur.c.ne) # TOPT \/ last.op \in {"set", "unc", "ttl"})

\* a filled cache holds the question of the bytes
CacheSound == cq # <<>> => QD(p) = 1 /\ cq[1] = CacheOf(p)

\* Reachability controls (non-vacuity): each of these "never" statements must be REFUTED by TLC
NeverRenamed == ~(last.op = "ren" /\ last.ok /\ CMsgX(p) # CMsgX(last.before))
NeverRenameOverflow == ~(last.op = "ren" /\ ~last.ok)
NeverOptInserted == ~(last.op = "ins" /\ last.ok /\ last.arg = 2)
NeverOptRefused == ~(last.op = "ins" /\ ~last.ok /\ last.arg = 2)
NeverOptionCursorDecompresses == ~(last.op = "unc" /\ last.sec = "E" /\ last.ok /\ p # last.before)
NeverDecompressFirst == ~(last.op \in {"set", "del"} /\ last.ok /\ ~PointerFreeT(last.before))
NeverTombstoneRefused == ~(last.op \in {"set", "del"} /\ ~last.ok /\ cur.c.tomb)
NeverRestart == ~(last.op = "next" /\ cur.open /\ ~cur.c.tomb /\ n >= 3)
NeverCacheReset == ~(last.op \in {"set", "del", "ren"} /\ last.ok /\ cq = <<>> /\ n >= 2)

\* the decoded message after the last step, given the one before
Effect ==
  last.op = "init" \/
  LET a == CMsgX(last.before)  b == CMsgX(p)  s == last.sec IN
  IF ~last.ok THEN b = a /\ p = last.before
  ELSE CASE last.op = "set" -> b = WithSec(a, s, [SecOf(a, s) EXCEPT ![last.idx].n = UName(NewNames[last.arg], 0).labels])
         [] last.op = "del" -> b = WithSec(a, s, RemoveAt(SecOf(a, s), last.idx))
         [] last.op = "ttl" -> b = WithSec(a, s, [SecOf(a, s) EXCEPT ![last.idx].ttl = <<222, 173, 190, 239>>])
         [] last.op = "ins" -> b = WithSec(a, s, Append(SecOf(a, s), NewRecs[last.arg])) /\ Len(p) <= 8192
         [] last.op = "ren" -> LET r == Renames[last.arg] IN
                               LowerMsg(b) = LowerMsg(MapMsg(a, UName(r.t, 0).labels, UName(r.s, 0).labels, r.x))
         [] OTHER -> b = a
====
