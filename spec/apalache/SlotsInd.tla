---- MODULE SlotsInd ----
(***************************************************************************)
(* Unbounded-in-time argument for C16's design: an inductive invariant of  *)
(* the slot machine (a typed copy of spec/Slots.tla without the history    *)
(* variable), discharged by Apalache:                                      *)
(*     Init => IndInv            (apalache-mc check --length=0 --inv=IndInv)*)
(*     IndInv /\ Next => IndInv' (--init=IndInit --length=1 --inv=IndInv)   *)
(* and IndInv => Private.  Messages are pairs <<thread, step>>.             *)
(***************************************************************************)
EXTENDS Integers, Sequences

CONSTANTS
  \* @type: Int;
  NThreads,
  \* @type: Seq(Str);
  Program

VARIABLES
  \* @type: Int -> Int;
  pc,
  \* @type: Int -> <<Int, Int>>;
  slot,
  \* @type: Int -> <<Int, Int>>;
  lastFail,
  \* @type: Int -> <<Int, Int>>;
  lastRead

Threads == 1..NThreads
CInit == NThreads = 3 /\ Program = <<"F", "R", "F", "R", "R", "F", "R">>

Init == /\ pc = [t \in Threads |-> 1]
        /\ slot = [t \in Threads |-> <<0, 0>>]
        /\ lastFail = [t \in Threads |-> <<0, 0>>]
        /\ lastRead = [t \in Threads |-> <<0, 0>>]
Step(t) ==
  /\ pc[t] <= Len(Program)
  /\ IF Program[pc[t]] = "F"
     THEN /\ slot' = [slot EXCEPT ![t] = <<t, pc[t]>>]
          /\ lastFail' = [lastFail EXCEPT ![t] = <<t, pc[t]>>]
          /\ UNCHANGED lastRead
     ELSE /\ lastRead' = [lastRead EXCEPT ![t] = slot[t]]
          /\ UNCHANGED <<slot, lastFail>>
  /\ pc' = [pc EXCEPT ![t] = @ + 1]
Next == (\E t \in Threads : Step(t)) \/ UNCHANGED <<pc, slot, lastFail, lastRead>>

Private == \A t \in Threads : (pc[t] > 1 /\ Program[pc[t] - 1] = "R") => lastRead[t] = lastFail[t]
\* Apalache wants constant ranges: 3 threads, program of 7 steps (CInit)
TypeOK == /\ pc \in [1..3 -> 1..8]
          /\ slot \in [1..3 -> (0..3) \X (0..7)]
          /\ lastFail \in [1..3 -> (0..3) \X (0..7)]
          /\ lastRead \in [1..3 -> (0..3) \X (0..7)]
IndInv == /\ TypeOK
          /\ \A t \in Threads : slot[t] = lastFail[t]
          /\ Private
IndInit == IndInv
====
