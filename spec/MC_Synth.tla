---- MODULE MC_Synth ----
(* Round trip on the specification side: the wire form of a structured record decodes, with    *)
(* Message!Decode / Canon, to the same record (so Synth!WireRR and the decoder agree), for all *)
(* types and a small universe of names, including the 255 / 256 byte chunk boundary of TXT.    *)
EXTENDS Synth, TLC
Names == { <<>>, << <<97>> >>, << <<97, 66>>, <<99>> >>, << [i \in 1..62 |-> 108], <<99>> >> }
TxtLens == {1, 2, 254, 255, 256, 257, 510, 511}
VARIABLES ty, n, d1, d2, tl, done
Types == {TA, TAAAA, TNS, TCNAME, TPTR, TMX, TSOA, TTXT, TDS}
Init == ty \in Types /\ n \in Names /\ d1 \in Names /\ d2 \in Names /\ tl \in TxtLens /\ done = 0
R == [n |-> n, t |-> ty, ttl |-> <<1, 2, 3, 4>>,
      names |-> IF ty \in {TNS, TCNAME, TPTR, TMX} THEN <<d1>> ELSE IF ty = TSOA THEN <<d1, d2>> ELSE <<>>,
      fixed |-> IF ty = TA THEN <<9, 8, 7, 6>> ELSE IF ty = TAAAA THEN [i \in 1..16 |-> i] ELSE IF ty = TMX THEN <<0, 5>>
                ELSE IF ty = TSOA THEN [i \in 1..20 |-> i] ELSE IF ty = TDS THEN <<1, 2, 8, 2, 171, 205>> ELSE <<>>,
      txt |-> [i \in 1..tl |-> 97 + (i % 26)]]
RoundTrip ==
  LET w == WireRR(R)  p == Wrap(w)  m == Decode(p)  r == m.an[1]  c == Canon(p, r) IN
  /\ WellFormed(p) /\ Len(m.an) = 1 /\ r.next = Len(p)
  /\ r.labels = R.n /\ r.type = R.t /\ r.class = 1 /\ r.ttl = R.ttl
  /\ c.names = R.names
  /\ (ty # TTXT => FixedOf(r, c) = R.fixed)
  /\ (ty = TTXT => /\ Len(r.rdata) = tl + (tl + 254) \div 255
                   /\ \A k \in 0..((tl - 1) \div 255) : r.rdata[k * 256 + 1] = (IF tl - k * 255 >= 255 THEN 255 ELSE tl - k * 255))
Next == done = 0 /\ done' = 1 /\ UNCHANGED <<ty, n, d1, d2, tl>> /\ Assert(RoundTrip, <<"WireRR does not decode to its record", R>>)
====
