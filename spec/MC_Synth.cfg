CONSTANTS
  MaxLabel = 63
  MaxName = 255
  MaxRefs = 16
INIT Init
NEXT Next
CHECK_DEADLOCK FALSE
