---- MODULE Trace_Read ----
(***************************************************************************)
(* Trace validation of the readers and getters on accepted packets:        *)
(*   C03  the six walks (question, answer, authority, additional without   *)
(*        and with OPT, EDNS options) yield exactly the records of         *)
(*        Decode(pkt) in wire order and every accessor returns the decoded *)
(*        value; the bytes are untouched                                   *)
(*   C04  header / question / EDNS summaries equal Summary(pkt)            *)
(* One event per accepted packet (stateless scheme, see Trace_Parse).      *)
(***************************************************************************)
EXTENDS Message, Json, IOUtils

Rec == ndJsonDeserialize(IOEnv.TRACE)
VARIABLES l, done
Init == l \in 1..Len(Rec) /\ done = 0
Once == done = 0 /\ done' = 1 /\ l' = l
\* the driver process was killed by the scenario (abort, stack overflow) or made no progress (hang)
Died(e) == e.k \in {"hang", "abort"}
Report(tag, why) == PrintT("@@" \o tag \o "|" \o ToString(l) \o "|" \o why)

----------------------------------------------------------------------------
RRWhy(o, r, sec) ==
  IF o.off # r.off \/ o.name_end # r.name_end \/ o.next # r.next THEN "cursor offsets"
  ELSE IF o.name # NameText(r.labels) THEN "name()"
  ELSE IF o.raw # RawName(r.labels) \/ o.rawlen # Len(o.raw) THEN "copy_raw_name()"
  ELSE IF o.type # r.type THEN "rr_type()"
  ELSE IF o.class # r.class THEN "rr_class()"
  ELSE IF o.ttl # r.ttl THEN "rr_ttl()"
  ELSE IF o.rdlen # r.rdlen THEN "rr_rdlen()"
  ELSE IF o.rd.b # r.rdata \/ o.rd.k # (IF r.type \in {TA, TAAAA} THEN "ip" ELSE "data") THEN "rr_rd()"
  ELSE IF o.ip # (IF r.type \in {TA, TAAAA} THEN r.rdata ELSE <<>>) THEN "rr_ip()"
  ELSE IF o.sec # sec THEN "current_section()"
  ELSE ""

RECURSIVE SecWhy(_, _, _, _)
SecWhy(os, rs, sec, i) ==
  IF i > Len(rs) THEN ""
  ELSE LET w == RRWhy(os[i], rs[i], sec) IN
       IF w = "" THEN SecWhy(os, rs, sec, i + 1) ELSE sec \o " record " \o ToString(i) \o ": " \o w

WalkWhy(os, rs, sec) ==
  IF Len(os) # Len(rs) THEN sec \o " walk yields " \o ToString(Len(os)) \o " records, the packet has " \o ToString(Len(rs))
  ELSE SecWhy(os, rs, sec, 1)

First(ws) == IF \E i \in 1..Len(ws) : ws[i] # "" THEN ws[CHOOSE i \in 1..Len(ws) : ws[i] # "" /\ \A j \in 1..(i - 1) : ws[j] = ""] ELSE ""

C03Why(e) ==
  IF e.res # "ok" THEN "reader " \o e.res
  ELSE LET p == e.pkt  m == Decode(p)  o == OptOf(m)
           opts == IF HasOpt(m) THEN OptExt(p, o.name_end + 10, o.next, <<>>) ELSE <<>> IN
  First(<<
    IF e.same THEN "" ELSE "an accessor changed the packet bytes",
    IF Len(e.q) # 1 THEN "question walk yields " \o ToString(Len(e.q)) \o " records"
    ELSE LET q == e.q[1] IN
         IF q.off # 12 \/ q.name_end # m.q.name_end \/ q.next # m.q.next THEN "question cursor offsets"
         ELSE IF q.name # NameText(m.q.labels) THEN "question name()"
         ELSE IF q.raw # RawName(m.q.labels) THEN "question copy_raw_name()"
         ELSE IF q.type # m.q.type \/ q.class # m.q.class THEN "question type/class"
         ELSE IF q.sec # "Q" THEN "question current_section()" ELSE "",
    WalkWhy(e.an, m.an, "AN"),
    WalkWhy(e.ns, m.ns, "NS"),
    WalkWhy(e.ar, m.ar, "AR"),
    LET w == WalkWhy(e.arskip, SelectSeq(m.ar, LAMBDA r : r.type # TOPT), "AR") IN IF w = "" THEN "" ELSE "OPT-skipping reader: " \o w,
    IF Len(e.edns) # Len(opts) THEN "EDNS walk yields " \o ToString(Len(e.edns)) \o " options, the packet has " \o ToString(Len(opts))
    ELSE IF \E i \in 1..Len(opts) : e.edns[i].off # opts[i].off \/ e.edns[i].next # opts[i].next THEN "EDNS option extents" ELSE ""
  >>)
C03(e) == LET w == C03Why(e) IN IF w = "" THEN TRUE ELSE Report("VIOLATION-C03", w)
NextC03 == Once /\ (IF Died(Rec[l]) THEN Report("VIOLATION-C03", "the library " \o Rec[l].k \o "s") ELSE C03(Rec[l]))

----------------------------------------------------------------------------
Opt1(x) == IF x = <<>> THEN 0 ELSE x[1]
C04Why(e) ==
  IF e.res # "ok" THEN "getter " \o e.res
  ELSE LET p == e.pkt  sm == Summary(p)  s == e.sum  v == e.view  f == FreshView(p) IN
  First(<<
    IF s.tid = sm.tid THEN "" ELSE "tid()",
    IF s.fhi = sm.fhi /\ s.flo = sm.flo THEN "" ELSE "flags()",
    IF s.rcode = sm.rcode THEN "" ELSE "rcode()",
    IF s.opcode = sm.opcode THEN "" ELSE "opcode()",
    IF s.qr = sm.qr THEN "" ELSE "is_response()",
    IF s.dnssec = sm.dnssec THEN "" ELSE "dnssec()",
    IF s.maxp = sm.maxp /\ v.maxp = sm.maxp THEN "" ELSE "max_payload()",
    IF v.ver = sm.ver THEN "" ELSE "edns_version",
    IF v.xrcode = sm.xrcode THEN "" ELSE "ext_rcode",
    IF v.xflags = f.xflags THEN "" ELSE "ext_flags",
    IF v.ecount = sm.ecount THEN "" ELSE "edns_count",
    IF v.oedns = f.oedns THEN "" ELSE "offset_edns",
    IF v.oq = f.oq /\ v.oan = f.oan /\ v.ons = f.ons /\ v.oar = f.oar THEN "" ELSE "section offsets",
    IF s.q_text = sm.q_text /\ s.q_type = sm.q_type /\ s.q_class = sm.q_class THEN "" ELSE "question()",
    IF s.qq = <<sm.q_type, sm.q_class>> THEN "" ELSE "qtype_qclass()",
    IF s.q_raw0 = sm.q_raw0 /\ s.q0_type = sm.q_type /\ s.q0_class = sm.q_class THEN "" ELSE "question_raw0()",
    IF s.q_raw = SubSeq(sm.q_raw0, 1, Len(sm.q_raw0) - 1) THEN "" ELSE "question_raw()",
    IF s.q_text2 = sm.q_text /\ s.q2_type = sm.q_type /\ s.q2_class = sm.q_class THEN "" ELSE "question() after the cache is filled",
    IF s.qq2 = <<sm.q_type, sm.q_class>> THEN "" ELSE "qtype_qclass() after the cache is filled"
  >>)
C04(e) == LET w == C04Why(e) IN IF w = "" THEN TRUE ELSE Report("VIOLATION-C04", w)
NextC04 == Once /\ (IF Died(Rec[l]) THEN Report("VIOLATION-C04", "the library " \o Rec[l].k \o "s") ELSE C04(Rec[l]))

\* coverage facts about the packet of an event, for the evidence (printed by both steps)
Facts(e) == LET p == e.pkt  m == Decode(p)  rs == AllRecs(m) IN
  PrintT("@@FACTS|" \o ToString(l) \o "|" \o ToJson([nrec |-> Len(rs), opt |-> IF HasOpt(m) THEN (IF Len(m.ar) = 1 THEN "only" ELSE IF OptIdxOf(m) = 1 THEN "first" ELSE IF OptIdxOf(m) = Len(m.ar) THEN "last" ELSE "middle") ELSE "none",
      ptrs |-> CName(p, 12).nptr + (IF rs = <<>> THEN 0 ELSE LET RECURSIVE S(_) S(i) == IF i > Len(rs) THEN 0 ELSE OwnerPtrs(p, rs[i]) + Canon(p, rs[i]).nptr + S(i + 1) IN S(1))]))
NextC03F == Once /\ (IF Died(Rec[l]) THEN Report("VIOLATION-C03", "the library " \o Rec[l].k \o "s") ELSE C03(Rec[l]) /\ (Rec[l].res = "ok" => Facts(Rec[l])))
====
