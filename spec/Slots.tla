---- MODULE Slots ----
(***************************************************************************)
(* C16: the description of a failed C-table call is private to the calling *)
(* thread.  Each thread runs a fixed program of Fail / Read steps; a Fail  *)
(* stores a message in the thread's slot, a Read returns the slot's        *)
(* content.  Invariant: what a thread reads is its own most recent         *)
(* failure, whatever the other threads did in between.                     *)
(*                                                                         *)
(* Shared = TRUE models the defect the property excludes (one process-wide *)
(* slot): TLC must find the interleaving that breaks the invariant.        *)
(* Every complete interleaving is also printed as a schedule and replayed  *)
(* on the real table by a coordinator that releases one step at a time.    *)
(***************************************************************************)
EXTENDS Naturals, Sequences, FiniteSets, TLC, Json

CONSTANTS NThreads, Program, Shared      \* Program: sequence over {"F", "R"}

Threads == 1..NThreads
VARIABLES pc, slot, lastFail, lastRead, hist
vars == <<pc, slot, lastFail, lastRead, hist>>

\* the k-th failure of thread t carries the message <<t, k>>
Init == /\ pc = [t \in Threads |-> 1]
        /\ slot = [t \in Threads |-> <<0, 0>>]
        /\ lastFail = [t \in Threads |-> <<0, 0>>]
        /\ lastRead = [t \in Threads |-> <<0, 0>>]
        /\ hist = <<>>
Slot(t) == IF Shared THEN 1 ELSE t
Step(t) ==
  /\ pc[t] <= Len(Program)
  /\ LET a == Program[pc[t]] IN
     IF a = "F" THEN
          LET m == <<t, pc[t]>> IN
          /\ slot' = [slot EXCEPT ![Slot(t)] = m] /\ lastFail' = [lastFail EXCEPT ![t] = m]
          /\ UNCHANGED lastRead
     ELSE /\ lastRead' = [lastRead EXCEPT ![t] = slot[Slot(t)]]
          /\ UNCHANGED <<slot, lastFail>>
  /\ pc' = [pc EXCEPT ![t] = @ + 1]
  /\ hist' = Append(hist, t)
Done == \A t \in Threads : pc[t] > Len(Program)
Next == \E t \in Threads : Step(t)
Spec == Init /\ [][Next]_vars

\* what a thread read is its own last failure (reads before the first failure are not in the programs)
Private == \A t \in Threads : (pc[t] > 1 /\ Program[pc[t] - 1] = "R") => lastRead[t] = lastFail[t]
\* one line per complete interleaving
Emit == Done' => PrintT("@@REPLAY|" \o ToJson(hist'))
====
