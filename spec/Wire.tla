---- MODULE Wire ----
(***************************************************************************)
(* Declarative reading of a DNS message under dnssector's validation       *)
(* policy (property C02).  Pure operators over Seq(0..255); offsets are    *)
(* 0-based as in the code (p[o + 1] is the byte at offset o).              *)
(*                                                                         *)
(* CName  : reader for names that may use compression pointers (owner      *)
(*          names, names inside NS/CNAME/PTR/MX/SOA data)                  *)
(* UName  : reader for pointer-free names (DNAME targets, names handed to  *)
(*          set_raw_name / rename)                                         *)
(* WhyNot : the first clause of the policy a packet violates, "" if none   *)
(*                                                                         *)
(* MaxLabel / MaxName / MaxRefs are constants so that the model-checking   *)
(* configurations can scale them down; trace validation uses 63/255/16.    *)
(***************************************************************************)
EXTENDS Naturals, Sequences, FiniteSets, TLC

CONSTANTS MaxLabel, MaxName, MaxRefs

U16(p, o) == p[o + 1] * 256 + p[o + 2]
BadChar(b) == b < 32 \/ b = 127 \/ b = 46 \/ b = 92
Fail(w) == [ok |-> FALSE, end |-> 0, labels |-> <<>>, nptr |-> 0, why |-> w]

\* Compressed-name walker (policy of owner names and NS/CNAME/PTR/MX/SOA rdata names)
RECURSIVE CWalk(_, _, _, _, _, _, _, _, _)
CWalk(p, cur, barrier, lowest, refs, nlen, fin, labels, nptr) ==
  IF cur >= barrier THEN Fail("segment-overrun")
  ELSE LET b == p[cur + 1] IN
    IF b >= 192 THEN
      IF refs = 0 THEN Fail("too-many-pointers")
      ELSE IF Len(p) - cur < 2 THEN Fail("pointer-truncated")
      ELSE LET r == (b - 192) * 256 + p[cur + 2] IN
           IF r >= lowest THEN Fail("pointer-not-backward")
           ELSE IF p[r + 1] = 0 THEN Fail("pointer-to-root")
           ELSE CWalk(p, r, lowest, r, refs - 1, nlen, IF fin = 0 THEN cur + 2 ELSE fin, labels, nptr + 1)
    ELSE IF b > MaxLabel THEN Fail("label-too-long")
    ELSE IF b >= Len(p) - cur THEN Fail("label-truncated")
    ELSE IF nlen + b + 1 > MaxName THEN Fail("name-too-long")
    ELSE IF \E k \in 1..b : BadChar(p[cur + 1 + k]) THEN Fail("bad-char")
    ELSE IF b = 0 THEN [ok |-> TRUE, end |-> IF fin = 0 THEN cur + 1 ELSE fin, labels |-> labels, nptr |-> nptr, why |-> ""]
    ELSE CWalk(p, cur + b + 1, barrier, lowest, refs, nlen + b + 1, fin,
               Append(labels, SubSeq(p, cur + 2, cur + 1 + b)), nptr)

CName(p, o) == IF o >= Len(p) THEN Fail("offset-outside") ELSE CWalk(p, o, Len(p), o, MaxRefs, 0, 0, <<>>, 0)

\* Pointer-free walker (DNAME targets, names handed to set_raw_name)
RECURSIVE UWalk(_, _, _, _)
UWalk(p, cur, nlen, labels) ==
  IF cur >= Len(p) THEN Fail("truncated")
  ELSE LET b == p[cur + 1] IN
    IF b >= 192 THEN Fail("pointer-in-pointer-free-name")
    ELSE IF b > MaxLabel THEN Fail("label-too-long")
    ELSE IF b >= Len(p) - cur THEN Fail("label-truncated")
    ELSE IF nlen + b + 1 > MaxName THEN Fail("name-too-long")
    ELSE IF b = 0 THEN [ok |-> TRUE, end |-> cur + 1, labels |-> labels, nptr |-> 0, why |-> ""]
    ELSE UWalk(p, cur + b + 1, nlen + b + 1, Append(labels, SubSeq(p, cur + 2, cur + 1 + b)))
UName(p, o) == IF o >= Len(p) THEN Fail("offset-outside") ELSE UWalk(p, o, 0, <<>>)

TA == 1  TNS == 2  TCNAME == 5  TSOA == 6  TPTR == 12  TMX == 15  TAAAA == 28  TDNAME == 39  TOPT == 41

\* options tile [from, to) exactly; returns count or -1 (as 99999)
RECURSIVE Opts(_, _, _, _)
Opts(p, from, to, n) ==
  IF from = to THEN n
  ELSE IF to - from < 4 THEN 99999
  ELSE LET ol == U16(p, from + 2) IN
       IF 4 + ol > to - from THEN 99999 ELSE Opts(p, from + 4 + ol, to, n + 1)

\* one record at off in section sec ("AN","NS","AR"); seenOpt: OPT already seen
\* returns [ok, end, isOpt, why]
RR(p, off, sec, seenOpt) ==
  LET nm == CName(p, off) IN
  IF ~nm.ok THEN [ok |-> FALSE, end |-> 0, isOpt |-> FALSE, why |-> "owner:" \o nm.why]
  ELSE LET e == nm.end IN
    IF e + 10 > Len(p) THEN [ok |-> FALSE, end |-> 0, isOpt |-> FALSE, why |-> "fixed-part-truncated"]
    ELSE LET ty == U16(p, e)  rdl == U16(p, e + 8)  d == e + 10 IN
      IF ty = TOPT THEN
         IF sec # "AR" THEN [ok |-> FALSE, end |-> 0, isOpt |-> TRUE, why |-> "opt-placement"]
         ELSE IF e - off # 1 THEN [ok |-> FALSE, end |-> 0, isOpt |-> TRUE, why |-> "opt-owner-not-root"]
         ELSE IF seenOpt THEN [ok |-> FALSE, end |-> 0, isOpt |-> TRUE, why |-> "opt-duplicate"]
         ELSE IF d + rdl > Len(p) THEN [ok |-> FALSE, end |-> 0, isOpt |-> TRUE, why |-> "rdata-truncated"]
         ELSE IF Opts(p, d, d + rdl, 0) = 99999 THEN [ok |-> FALSE, end |-> 0, isOpt |-> TRUE, why |-> "options-do-not-tile"]
         ELSE [ok |-> TRUE, end |-> d + rdl, isOpt |-> TRUE, why |-> ""]
      ELSE IF d + rdl > Len(p) THEN [ok |-> FALSE, end |-> 0, isOpt |-> FALSE, why |-> "rdata-truncated"]
      ELSE IF ty \in {TNS, TCNAME, TPTR} THEN
         LET n1 == CName(p, d) IN
         IF rdl = 0 \/ ~n1.ok \/ n1.end - d # rdl THEN [ok |-> FALSE, end |-> 0, isOpt |-> FALSE, why |-> "name-rdata-shape"]
         ELSE [ok |-> TRUE, end |-> d + rdl, isOpt |-> FALSE, why |-> ""]
      ELSE IF ty = TMX THEN
         LET n1 == CName(p, d + 2) IN
         IF rdl <= 2 \/ ~n1.ok \/ n1.end - d # rdl THEN [ok |-> FALSE, end |-> 0, isOpt |-> FALSE, why |-> "mx-rdata-shape"]
         ELSE [ok |-> TRUE, end |-> d + rdl, isOpt |-> FALSE, why |-> ""]
      ELSE IF ty = TSOA THEN
         LET n1 == CName(p, d) IN
         IF rdl <= 21 \/ ~n1.ok THEN [ok |-> FALSE, end |-> 0, isOpt |-> FALSE, why |-> "soa-rdata-shape"]
         ELSE LET n2 == CName(p, n1.end) IN
              IF ~n2.ok \/ n2.end - d + 20 # rdl THEN [ok |-> FALSE, end |-> 0, isOpt |-> FALSE, why |-> "soa-rdata-shape"]
              ELSE [ok |-> TRUE, end |-> d + rdl, isOpt |-> FALSE, why |-> ""]
      ELSE IF ty = TDNAME THEN
         LET n1 == UName(p, d) IN
         IF rdl = 0 \/ ~n1.ok \/ n1.end - d # rdl THEN [ok |-> FALSE, end |-> 0, isOpt |-> FALSE, why |-> "dname-rdata-shape"]
         ELSE [ok |-> TRUE, end |-> d + rdl, isOpt |-> FALSE, why |-> ""]
      ELSE IF ty = TA /\ rdl # 4 THEN [ok |-> FALSE, end |-> 0, isOpt |-> FALSE, why |-> "a-size"]
      ELSE IF ty = TAAAA /\ rdl # 16 THEN [ok |-> FALSE, end |-> 0, isOpt |-> FALSE, why |-> "aaaa-size"]
      ELSE [ok |-> TRUE, end |-> d + rdl, isOpt |-> FALSE, why |-> ""]

RECURSIVE RRs(_, _, _, _, _)
RRs(p, off, sec, n, seenOpt) ==
  IF n = 0 THEN [ok |-> TRUE, end |-> off, seenOpt |-> seenOpt, why |-> ""]
  ELSE LET r == RR(p, off, sec, seenOpt) IN
       IF ~r.ok THEN [ok |-> FALSE, end |-> 0, seenOpt |-> seenOpt, why |-> r.why]
       ELSE RRs(p, r.end, sec, n - 1, seenOpt \/ r.isOpt)

WhyNot(p) ==
  IF Len(p) < 12 THEN "header-truncated"
  ELSE IF U16(p, 4) # 1 THEN "question-count"
  ELSE LET q == CName(p, 12) IN
    IF ~q.ok THEN "qname:" \o q.why
    ELSE IF q.end + 4 > Len(p) THEN "question-truncated"
    ELSE IF U16(p, q.end + 2) # 1 THEN "question-class"
    ELSE LET qr == p[3] >= 128  an == U16(p, 6)  ns == U16(p, 8)  ar == U16(p, 10) IN
      IF ~qr /\ (an > 0 \/ ns > 0) THEN "query-with-answers"
      ELSE LET a == RRs(p, q.end + 4, "AN", an, FALSE) IN
        IF ~a.ok THEN a.why
        ELSE LET b == RRs(p, a.end, "NS", ns, FALSE) IN
          IF ~b.ok THEN b.why
          ELSE LET c == RRs(p, b.end, "AR", ar, FALSE) IN
            IF ~c.ok THEN c.why
            ELSE IF c.end # Len(p) THEN "trailing-bytes"
            ELSE ""
WellFormed(p) == WhyNot(p) = ""
====
