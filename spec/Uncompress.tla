---- MODULE Uncompress ----
(***************************************************************************)
(* C05, implementation-shaped: Compress::uncompress_with_previous_offset   *)
(* (src/compress.rs:268-346) re-emits the packet record by record; every   *)
(* record has a size in the input (names possibly compressed) and a size   *)
(* in the output (names expanded, never smaller).  While walking, it       *)
(* remembers the output length at the moment the input cursor equals the   *)
(* reference offset ("latch"); the end of the packet is a boundary too.    *)
(* Property: for every boundary of the input the carried offset is the     *)
(* same boundary of the output, the latch fires exactly once, and for a    *)
(* reference that is no boundary nothing is latched (the code panics: such *)
(* offsets are outside the statement of C05).                              *)
(* LatchOnNext = TRUE models a slip (comparing with the end of the record  *)
(* instead of its start) as a negative control.                            *)
(***************************************************************************)
EXTENDS Naturals, Sequences, FiniteSets, TLC

CONSTANTS MaxRecs, Sizes, LatchOnNext

Hdr == 12
VARIABLES recs, ref, i, inoff, outoff, latch, fired
vars == <<recs, ref, i, inoff, outoff, latch, fired>>

RecSet == {r \in [in : Sizes, out : Sizes] : r.out >= r.in}
RECURSIVE SumTo(_, _, _)
SumTo(rs, k, f) == IF k = 0 THEN 0 ELSE (IF f = "in" THEN rs[k].in ELSE rs[k].out) + SumTo(rs, k - 1, f)
InB(rs, k) == Hdr + SumTo(rs, k, "in")        \* k-th boundary of the input (k = 0: first record)
OutB(rs, k) == Hdr + SumTo(rs, k, "out")
InLen(rs) == InB(rs, Len(rs))

Init == /\ recs \in UNION {[1..n -> RecSet] : n \in 1..MaxRecs}
        /\ ref \in Hdr..(Hdr + MaxRecs * 3)
        /\ ref <= InLen(recs)
        /\ i = 1 /\ inoff = Hdr /\ outoff = Hdr /\ latch = 0 /\ fired = 0

Emit == /\ i <= Len(recs)
        /\ LET hit == IF LatchOnNext THEN ref = inoff + recs[i].in ELSE ref = inoff IN
           /\ latch' = IF hit THEN outoff ELSE latch
           /\ fired' = IF hit THEN fired + 1 ELSE fired
        /\ inoff' = inoff + recs[i].in /\ outoff' = outoff + recs[i].out
        /\ i' = i + 1 /\ UNCHANGED <<recs, ref>>
Finish == /\ i = Len(recs) + 1
          /\ latch' = IF ref = inoff THEN outoff ELSE latch
          /\ fired' = IF ref = inoff THEN fired + 1 ELSE fired
          /\ i' = i + 1 /\ UNCHANGED <<recs, ref, inoff, outoff>>
Next == Emit \/ Finish
Spec == Init /\ [][Next]_vars /\ WF_vars(Next)

Done == i = Len(recs) + 2
IsBoundary == \E k \in 0..Len(recs) : InB(recs, k) = ref
Carried == Done => IF IsBoundary
                   THEN fired = 1 /\ latch = OutB(recs, CHOOSE k \in 0..Len(recs) : InB(recs, k) = ref)
                   ELSE fired = 0
NeverShorter == outoff >= inoff
Terminates == <>Done
====
