---- MODULE MC_Header ----
(* All 65 536 words x a covering set of arguments: the three views of Header coincide, *)
(* the setters touch only their field, and the decomposition lemma used by C12 holds. *)
EXTENDS Header, TLC
CONSTANT Args
VARIABLES w, done
Init == w \in Word /\ done = 0
Views(x) ==
  /\ WordOf(Fields(x)) = x
  /\ FlagBitsA(x) = (x & FlagMask)
  /\ OpcodeA(x) * 2048 = (x & OpcodeMask) /\ RcodeA(x) = (x & RcodeMask)
Setters(x) == \A a \in Args :
  /\ SetFlagsFields(x, a) = SetFlagsA(x, a) /\ SetFlagsA(x, a) = SetFlagsM(x, a)
  /\ SetFlagsA(x, a + 65536) = SetFlagsA(x, a)                              \* upper half ignored
  /\ Fields(SetFlagsA(x, a)).opcode = Fields(x).opcode /\ Fields(SetFlagsA(x, a)).rcode = Fields(x).rcode
  /\ FlagBitsA(SetFlagsA(x, a)) = FlagBitsA(a)
  /\ SetFlagsA(x, a) = (SetFlagsA(x, 0) | SetFlagsA(0, a))                  \* decomposition lemma
  /\ SetOpcodeFields(x, a % 256) = SetOpcodeA(x, a % 256) /\ OpcodeA(SetOpcodeA(x, a % 256)) = (a % 256) % 16
  /\ SetOpcodeA(x, a % 256) - OpcodeA(SetOpcodeA(x, a % 256)) * 2048 = x - OpcodeA(x) * 2048
  /\ SetRcodeFields(x, a % 256) = SetRcodeA(x, a % 256) /\ RcodeA(SetRcodeA(x, a % 256)) = (a % 256) % 16
  /\ SetRcodeA(x, a % 256) - RcodeA(SetRcodeA(x, a % 256)) = x - RcodeA(x)
  /\ SetQRFields(x, TRUE) = SetQRA(x, TRUE) /\ SetQRFields(x, FALSE) = SetQRA(x, FALSE)
  /\ SetQRA(x, TRUE) % 32768 = x % 32768 /\ SetQRA(x, FALSE) = x % 32768
Next == done = 0 /\ done' = 1 /\ w' = w /\ Assert(Views(w) /\ Setters(w), <<"Header views disagree on", w>>)
====
