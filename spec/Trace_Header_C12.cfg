INIT Init
NEXT NextC12
CHECK_DEADLOCK FALSE
