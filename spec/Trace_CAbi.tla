---- MODULE Trace_CAbi ----
(***************************************************************************)
(* C15: the C function table is a faithful, memory-safe facade.            *)
(* Every scripted operation is executed twice: through the table by a C    *)
(* program compiled against the shipped header (e.c) and natively through  *)
(* the Rust API (e.native).  The facade adds no behaviour: both report the *)
(* same return value, output values, error text and leave the object in    *)
(* the same state (bytes and every public field).  The C side additionally *)
(* reports, for every out-buffer, that canaries and the bytes behind what  *)
(* was legitimately written are intact ("mem", and "ok" inside record      *)
(* observations).  What the native operations must do is C03-C14's         *)
(* business; here only equality and the buffer discipline are judged.      *)
(***************************************************************************)
EXTENDS History, Json, IOUtils

Rec == ndJsonDeserialize(IOEnv.TRACE)
VARIABLES l, done
Init == l \in 1..Len(Rec) /\ done = 0
Once == done = 0 /\ done' = 1 /\ l' = l
Report(tag, why) == PrintT("@@" \o tag \o "|" \o ToString(l) \o "|" \o why)

FieldsOf(r) == DOMAIN r \ {"mem"}
FirstDiff(c, n) ==
  IF FieldsOf(c) # DOMAIN n THEN "different shape"
  ELSE IF \E f \in FieldsOf(c) : c[f] # n[f] THEN CHOOSE f \in FieldsOf(c) : c[f] # n[f]
  ELSE ""

C15Why(e) ==
  IF e.k = "compile" THEN "a hook cannot be compiled against the shipped header: " \o e.msg
  ELSE IF e.k = "valgrind" THEN "memcheck reports errors when the table is driven from C: " \o e.msg
  ELSE IF e.k = "abi" THEN "abi_version read through the header's layout is not the expected one (an entry is missing, extra or reordered)"
  ELSE IF e.k = "cdied" THEN "the C driver was killed during " \o e.op \o " (a table entry crashed instead of reporting a failure)"
  ELSE IF e.k = "missing" THEN "the two executions of the script have different lengths at " \o e.op
  ELSE IF e.native.died THEN "-"                       \* the native operation itself panics: another property's business
  ELSE LET d == FirstDiff(e.c, e.native) IN
       IF d # "" THEN "table entry '" \o e.c.op \o "' differs from the native operation in: " \o d
       ELSE IF "mem" \in DOMAIN e.c /\ ~e.c.mem THEN "table entry '" \o e.c.op \o "' wrote outside the caller's buffer or past what it reports"
       ELSE IF e.c.ret = 0 - 1 /\ e.c.op \in {"add", "rename", "namefromstr"} /\ e.c.err = "" THEN "failure without a description"
       \* and, whatever the native side did: the object a hook leaves behind is coherent (C08's predicate on the C side)
       ELSE IF "state" \in DOMAIN e.c /\ Len(e.c.state.bytes) >= 12 /\ Structural(e.c.state.bytes) /\ "oq" \in DOMAIN e.c.state.view
               /\ ViewWhy(e.c.state.view, e.c.state.bytes) # ""
            THEN "after table entry '" \o e.c.op \o "' " \o ViewWhy(e.c.state.view, e.c.state.bytes)
       ELSE ""
C15(e) == LET w == C15Why(e) IN
          /\ PrintT("@@FACT|" \o ToString(l) \o "|" \o (IF e.k = "pair" THEN e.c.op \o "|" \o (IF "ret" \in DOMAIN e.c THEN ToString(e.c.ret) ELSE "-") ELSE e.k \o "|-"))
          /\ (IF w \in {"", "-"} THEN TRUE ELSE Report("VIOLATION-C15", w))
NextC15 == Once /\ C15(Rec[l])
====
