---- MODULE MC_Readers ----
EXTENDS Readers
====
