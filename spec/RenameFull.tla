---- MODULE RenameFull ----
(***************************************************************************)
(* Byte-level transcription of Renamer::rename_with_raw_names              *)
(* (src/renamer.rs): every name of the packet (question, owners, names in  *)
(* NS / CNAME / PTR / MX / SOA data) is decompressed, passed through       *)
(* replace_raw (RenameImpl!ReplaceRaw) and re-emitted through the suffix   *)
(* dictionary of the compressor (CompressImpl!EmitName); RDLENGTH is       *)
(* rewritten; OPT and all other data are carried verbatim and in place.    *)
(* Result: [k |-> "ok", b |-> bytes] or [k |-> "err"] when a rewritten     *)
(* name would be too long.                                                 *)
(***************************************************************************)
EXTENDS RenameImpl, CompressImpl

\* st = [out, d, err]
RName(st, p, off, tgt, src, sfx) ==
  IF st.err THEN st
  ELSE LET nm == RawName(CName(p, off).labels)
           r == ReplaceRaw(nm, tgt, src, sfx) IN
       IF r.k = "err" THEN [st EXCEPT !.err = TRUE]
       ELSE LET bytes == IF r.k = "some" THEN r.v ELSE nm
                e == EmitName([out |-> st.out, d |-> st.d], bytes, 0, Len(bytes)) IN
            [out |-> e.out, d |-> e.d, err |-> FALSE]
RPut(st, b) == IF st.err THEN st ELSE [st EXCEPT !.out = @ \o b]

RRecord(st, p, r, tgt, src, sfx) ==
  LET s1 == RName(st, p, r.off, tgt, src, sfx)
      fx == r.name_end
      lenpos == Len(s1.out) + 9
      s2 == RPut(s1, SubSeq(p, fx + 1, fx + 10))
      d0 == fx + 10
      s3 == IF r.type \in {TNS, TCNAME, TPTR} THEN RName(s2, p, d0, tgt, src, sfx)
            ELSE IF r.type = TMX THEN RName(RPut(s2, SubSeq(p, d0 + 1, d0 + 2)), p, d0 + 2, tgt, src, sfx)
            ELSE IF r.type = TSOA THEN
                 LET n1e == CName(p, d0).end  n2e == CName(p, n1e).end IN
                 RPut(RName(RName(s2, p, d0, tgt, src, sfx), p, n1e, tgt, src, sfx), SubSeq(p, n2e + 1, n2e + 20))
            ELSE RPut(s2, SubSeq(p, d0 + 1, d0 + r.rdlen))
      rdl == Len(s3.out) - Len(s2.out)
  IN IF ~s3.err /\ r.type \in {TNS, TCNAME, TPTR, TMX, TSOA} THEN [s3 EXCEPT !.out = Patch16(@, lenpos, rdl)] ELSE s3

RECURSIVE RRecords(_, _, _, _, _, _, _)
RRecords(st, p, rs, i, tgt, src, sfx) ==
  IF i > Len(rs) THEN st ELSE RRecords(RRecord(st, p, rs[i], tgt, src, sfx), p, rs, i + 1, tgt, src, sfx)

RenameOut(p, tgt, src, sfx) ==
  LET m == Decode(p)
      q == RPut(RName([out |-> SubSeq(p, 1, 12), d |-> EmptyDict, err |-> FALSE], p, 12, tgt, src, sfx), SubSeq(p, m.q.name_end + 1, m.q.name_end + 4))
      f == RRecords(q, p, AllRecs(m), 1, tgt, src, sfx)
  IN IF f.err THEN [k |-> "err", b |-> <<>>] ELSE [k |-> "ok", b |-> f.out]
====
