---- MODULE TextGrammar ----
(***************************************************************************)
(* C13: the record-text grammar itself, so that TLC -- not the scenario    *)
(* generator -- decides what an arbitrary string denotes.                  *)
(*                                                                         *)
(*   Classify(t) = [k |-> "ok", rec |-> structured record]   the text is   *)
(*                     in the supported grammar and denotes rec            *)
(*               | [k |-> "err"]   the text is excluded for one of the     *)
(*                     reasons the statement lists (missing / surplus      *)
(*                     fields, out-of-range number, malformed address,     *)
(*                     unbalanced quotes, bad escape, odd-length or        *)
(*                     non-hex digest, unknown keyword, bad character)     *)
(*               | [k |-> "any"]   the statement does not say (purely      *)
(*                     numeric host names, '-' / '_' at unusual places,    *)
(*                     63-byte labels, names of 254..255 bytes, empty or   *)
(*                     very long or non-ASCII text, vertical whitespace    *)
(*                     inside SOA parentheses, IPv4-in-IPv6 notation)      *)
(*                                                                         *)
(* Shape of a text:  ws* owner ws+ ttl ws+ IN ws+ TYPE ws+ data ws*        *)
(* with ws = space / tab and keywords in any letter case.                  *)
(* Numbers are evaluated in two 16-bit halves (TLC integers are 32-bit).   *)
(***************************************************************************)
EXTENDS Synth, NameText

IsWs(c) == c = 32 \/ c = 9
IsDigit(c) == c >= 48 /\ c <= 57
IsHex(c) == IsDigit(c) \/ (c >= 65 /\ c <= 70) \/ (c >= 97 /\ c <= 102)
HexVal(c) == IF IsDigit(c) THEN c - 48 ELSE IF c >= 97 THEN c - 87 ELSE c - 55
Up(c) == IF c >= 97 /\ c <= 122 THEN c - 32 ELSE c
UpSeq(s) == [k \in 1..Len(s) |-> Up(s[k])]
HostChar(c) == LDHU(c) \/ c = Dot

RECURSIVE SkipWs(_, _)
SkipWs(t, k) == IF k <= Len(t) /\ IsWs(t[k]) THEN SkipWs(t, k + 1) ELSE k
RECURSIVE TokEnd(_, _)
TokEnd(t, k) == IF k <= Len(t) /\ ~IsWs(t[k]) THEN TokEnd(t, k + 1) ELSE k
RECURSIVE HostEnd(_, _)
HostEnd(t, k) == IF k <= Len(t) /\ HostChar(t[k]) THEN HostEnd(t, k + 1) ELSE k
RECURSIVE RStripLen(_, _)
RStripLen(t, k) == IF k >= 1 /\ IsWs(t[k]) THEN RStripLen(t, k - 1) ELSE k
RStrip(t) == SubSeq(t, 1, RStripLen(t, Len(t)))
\* the whitespace-separated fields of a string
RECURSIVE Fields(_, _, _)
Fields(t, k, acc) == LET a == SkipWs(t, k) IN IF a > Len(t) THEN acc ELSE LET b == TokEnd(t, a) IN Fields(t, b, Append(acc, SubSeq(t, a, b - 1)))
\* pieces separated by the byte sep (empty pieces kept)
RECURSIVE SplitOn(_, _, _, _, _)
SplitOn(t, sep, k, cur, acc) == IF k > Len(t) THEN Append(acc, cur)
                                ELSE IF t[k] = sep THEN SplitOn(t, sep, k + 1, <<>>, Append(acc, cur))
                                ELSE SplitOn(t, sep, k + 1, Append(cur, t[k]), acc)

----------------------------------------------------------------------------
(* numbers: [ok, hi, lo] with value hi * 65536 + lo *)
RECURSIVE DecFold(_, _, _, _)
DecFold(s, k, hi, lo) ==
  IF k > Len(s) THEN [ok |-> TRUE, hi |-> hi, lo |-> lo]
  ELSE LET l2 == lo * 10 + (s[k] - 48)  h2 == hi * 10 + l2 \div 65536 IN
       IF h2 > 65535 THEN [ok |-> FALSE, hi |-> 0, lo |-> 0] ELSE DecFold(s, k + 1, h2, l2 % 65536)
Dec(s) == IF Len(s) = 0 \/ \E k \in 1..Len(s) : ~IsDigit(s[k]) THEN [ok |-> FALSE, hi |-> 0, lo |-> 0] ELSE DecFold(s, 1, 0, 0)
U32(s) == LET d == Dec(s) IN [ok |-> d.ok, b |-> <<d.hi \div 256, d.hi % 256, d.lo \div 256, d.lo % 256>>]
U16Of(s) == LET d == Dec(s) IN [ok |-> d.ok /\ d.hi = 0, v |-> d.lo]
U8Of(s) == LET d == Dec(s) IN [ok |-> d.ok /\ d.hi = 0 /\ d.lo <= 255, v |-> d.lo]

----------------------------------------------------------------------------
(* host names: "ok" (with labels), "err", "any" *)
LabelShape(l) == /\ Len(l) >= 1
                 /\ l[1] # 45                                        \* no leading '-'
                 /\ \A k \in 2..Len(l) : l[k] # 95                   \* '_' only in front
HasNonDigit(t) == \E k \in 1..Len(t) : ~IsDigit(t[k]) /\ t[k] # Dot
Host(tok) ==
  IF tok = <<Dot>> THEN [k |-> "ok", labels |-> <<>>]
  ELSE IF Len(tok) = 0 \/ \E k \in 1..Len(tok) : ~HostChar(tok[k]) THEN [k |-> "err", labels |-> <<>>]
  ELSE IF MustReject(tok, <<>>) THEN [k |-> "err", labels |-> <<>>]
  ELSE IF MustAccept(tok, <<>>) /\ HasNonDigit(tok) /\ \A j \in 1..Len(Pieces(tok)) : LabelShape(Pieces(tok)[j])
       THEN [k |-> "ok", labels |-> Pieces(tok)]
  ELSE [k |-> "any", labels |-> <<>>]

----------------------------------------------------------------------------
(* addresses *)
V4(tok) ==
  LET ps == SplitOn(tok, Dot, 1, <<>>, <<>>) IN
  IF Len(ps) # 4 \/ \E j \in 1..Len(ps) : ~U8Of(ps[j]).ok THEN [k |-> "err", b |-> <<>>]
  ELSE [k |-> "ok", b |-> [j \in 1..4 |-> U8Of(ps[j]).v]]

HexGroup(g) == Len(g) >= 1 /\ Len(g) <= 4 /\ \A k \in 1..Len(g) : IsHex(g[k])
RECURSIVE HexFold(_, _, _)
HexFold(g, k, acc) == IF k > Len(g) THEN acc ELSE HexFold(g, k + 1, acc * 16 + HexVal(g[k]))
GroupBytes(gs) == LET RECURSIVE F(_) F(j) == IF j > Len(gs) THEN <<>> ELSE B16(HexFold(gs[j], 1, 0)) \o F(j + 1) IN F(1)
Colon == 58
\* position of the first "::" (0 if none)
DoubleColon(t) == IF \E k \in 1..(Len(t) - 1) : t[k] = Colon /\ t[k + 1] = Colon
                  THEN CHOOSE k \in 1..(Len(t) - 1) : t[k] = Colon /\ t[k + 1] = Colon /\ \A j \in 1..(k - 1) : ~(t[j] = Colon /\ t[j + 1] = Colon)
                  ELSE 0
GroupsOf(s) == IF s = <<>> THEN <<>> ELSE SplitOn(s, Colon, 1, <<>>, <<>>)
V6(tok) ==
  IF Len(tok) = 0 THEN [k |-> "err", b |-> <<>>]
  ELSE IF \E k \in 1..Len(tok) : ~(IsHex(tok[k]) \/ tok[k] = Colon)
       THEN (IF \A k \in 1..Len(tok) : IsHex(tok[k]) \/ tok[k] = Colon \/ tok[k] = Dot THEN [k |-> "any", b |-> <<>>] ELSE [k |-> "err", b |-> <<>>])
  ELSE LET dc == DoubleColon(tok) IN
       IF dc = 0 THEN
            LET gs == GroupsOf(tok) IN
            IF Len(gs) = 8 /\ \A j \in 1..8 : HexGroup(gs[j]) THEN [k |-> "ok", b |-> GroupBytes(gs)] ELSE [k |-> "err", b |-> <<>>]
       ELSE LET left == GroupsOf(SubSeq(tok, 1, dc - 1))  right == GroupsOf(SubSeq(tok, dc + 2, Len(tok))) IN
            IF (\A j \in 1..Len(left) : HexGroup(left[j])) /\ (\A j \in 1..Len(right) : HexGroup(right[j])) /\ Len(left) + Len(right) <= 7
            THEN [k |-> "ok", b |-> GroupBytes(left) \o [j \in 1..(2 * (8 - Len(left) - Len(right))) |-> 0] \o GroupBytes(right)]
            ELSE [k |-> "err", b |-> <<>>]

----------------------------------------------------------------------------
(* quoted text with decimal escapes: the data is the whole rest of the line *)
Quote == 34
Backslash == 92
RECURSIVE TxtFold(_, _, _)
\* content between the quotes, position k, bytes so far; "err" at a bad escape, "any" at a byte the statement does not cover
TxtFold(s, k, acc) ==
  IF k > Len(s) THEN [k |-> "ok", b |-> acc]
  ELSE IF s[k] = Backslash THEN
       IF k + 3 <= Len(s) /\ IsDigit(s[k + 1]) /\ IsDigit(s[k + 2]) /\ IsDigit(s[k + 3])
          /\ (s[k + 1] - 48) * 100 + (s[k + 2] - 48) * 10 + (s[k + 3] - 48) <= 255
       THEN TxtFold(s, k + 4, Append(acc, (s[k + 1] - 48) * 100 + (s[k + 2] - 48) * 10 + (s[k + 3] - 48)))
       ELSE [k |-> "err", b |-> <<>>]
  ELSE IF s[k] = Quote THEN [k |-> "err", b |-> <<>>]                \* text continues behind the closing quote
  ELSE IF s[k] < 32 \/ s[k] > 127 THEN [k |-> "any", b |-> <<>>]
  ELSE TxtFold(s, k + 1, Append(acc, s[k]))
MaxText == 3825      \* what the TXT builder takes; beyond is not judged
Txt(rd) ==
  IF Len(rd) < 2 \/ rd[1] # Quote \/ rd[Len(rd)] # Quote THEN [k |-> "err", b |-> <<>>]         \* unbalanced quotes
  ELSE IF Len(rd) = 2 THEN [k |-> "any", b |-> <<>>]
  ELSE LET r == TxtFold(SubSeq(rd, 2, Len(rd) - 1), 1, <<>>) IN
       IF r.k = "ok" /\ Len(r.b) > MaxText THEN [k |-> "any", b |-> <<>>] ELSE r

----------------------------------------------------------------------------
(* SOA data: host ws+ host ws* ( n n n n n ) *)
Soa(rd) ==
  LET e1 == HostEnd(rd, 1)
      a2 == SkipWs(rd, e1)
      e2 == HostEnd(rd, a2)
      po == SkipWs(rd, e2)
      h1 == Host(SubSeq(rd, 1, e1 - 1))
      h2 == Host(SubSeq(rd, a2, e2 - 1)) IN
  IF e1 = 1 \/ a2 = e1 \/ e2 = a2 \/ po > Len(rd) \/ rd[po] # 40 \/ rd[Len(rd)] # 41 THEN [k |-> "err"]
  ELSE LET body == SubSeq(rd, po + 1, Len(rd) - 1) IN
       IF \E k \in 1..Len(body) : body[k] \in {10, 11, 12, 13} THEN [k |-> "any"]
       ELSE LET fs == Fields(body, 1, <<>>) IN
            IF Len(fs) # 5 \/ \E j \in 1..Len(fs) : ~U32(fs[j]).ok THEN [k |-> "err"]
            ELSE IF h1.k = "err" \/ h2.k = "err" THEN [k |-> "err"]
            ELSE IF h1.k = "any" \/ h2.k = "any" THEN [k |-> "any"]
            ELSE [k |-> "ok", names |-> <<h1.labels, h2.labels>>,
                  fixed |-> U32(fs[1]).b \o U32(fs[2]).b \o U32(fs[3]).b \o U32(fs[4]).b \o U32(fs[5]).b]

----------------------------------------------------------------------------
Kw(tok, w) == UpSeq(tok) = w
KA == <<65>>  KAAAA == <<65, 65, 65, 65>>  KNS == <<78, 83>>  KCNAME == <<67, 78, 65, 77, 69>>  KPTR == <<80, 84, 82>>
KTXT == <<84, 88, 84>>  KMX == <<77, 88>>  KSOA == <<83, 79, 65>>  KDS == <<68, 83>>  KIN == <<73, 78>>

Bad == [k |-> "err"]
Grey == [k |-> "any"]
\* combines the verdicts of the fields: an error anywhere excludes the text
Join(ks) == IF \E j \in 1..Len(ks) : ks[j] = "err" THEN "err" ELSE IF \E j \in 1..Len(ks) : ks[j] = "any" THEN "any" ELSE "ok"

Classify(t) ==
  LET a1 == SkipWs(t, 1)   e1 == TokEnd(t, a1)
      a2 == SkipWs(t, e1)  e2 == TokEnd(t, a2)
      a3 == SkipWs(t, e2)  e3 == TokEnd(t, a3)
      a4 == SkipWs(t, e3)  e4 == TokEnd(t, a4)
      a5 == SkipWs(t, e4)
  IN
  IF a5 > Len(t) THEN Bad                                           \* fewer than five fields
  ELSE
  LET owner == Host(SubSeq(t, a1, e1 - 1))
      ttl == U32(SubSeq(t, a2, e2 - 1))
      cls == SubSeq(t, a3, e3 - 1)
      ty == SubSeq(t, a4, e4 - 1)
      rd == RStrip(SubSeq(t, a5, Len(t)))
      fs == Fields(rd, 1, <<>>)
      rec(tcode, names, fixed, txt) == [n |-> owner.labels, t |-> tcode, ttl |-> ttl.b, names |-> names, fixed |-> fixed, txt |-> txt]
      done(k, r) == LET j == Join(<<owner.k, k>>) IN IF j = "ok" THEN [k |-> "ok", rec |-> r] ELSE [k |-> j]
  IN
  IF ~ttl.ok \/ ~Kw(cls, KIN) THEN Bad
  ELSE IF Kw(ty, KA) THEN
       (IF Len(fs) # 1 THEN Bad ELSE LET x == V4(fs[1]) IN done(x.k, rec(TA, <<>>, x.b, <<>>)))
  ELSE IF Kw(ty, KAAAA) THEN
       (IF Len(fs) # 1 THEN Bad ELSE LET x == V6(fs[1]) IN done(x.k, rec(TAAAA, <<>>, x.b, <<>>)))
  ELSE IF Kw(ty, KNS) \/ Kw(ty, KCNAME) \/ Kw(ty, KPTR) THEN
       (IF Len(fs) # 1 THEN Bad
        ELSE LET x == Host(fs[1]) IN done(x.k, rec(IF Kw(ty, KNS) THEN TNS ELSE IF Kw(ty, KCNAME) THEN TCNAME ELSE TPTR, <<x.labels>>, <<>>, <<>>)))
  ELSE IF Kw(ty, KTXT) THEN
       LET x == Txt(rd) IN done(x.k, rec(TTXT, <<>>, <<>>, x.b))
  ELSE IF Kw(ty, KMX) THEN
       (IF Len(fs) # 2 \/ ~U16Of(fs[1]).ok THEN Bad
        ELSE LET x == Host(fs[2]) IN done(x.k, rec(TMX, <<x.labels>>, B16(U16Of(fs[1]).v), <<>>)))
  ELSE IF Kw(ty, KSOA) THEN
       LET x == Soa(rd) IN IF x.k = "ok" THEN done("ok", rec(TSOA, x.names, x.fixed, <<>>)) ELSE done(x.k, rec(TSOA, <<>>, <<>>, <<>>))
  ELSE IF Kw(ty, KDS) THEN
       (IF Len(fs) # 4 \/ ~U16Of(fs[1]).ok \/ ~U8Of(fs[2]).ok \/ ~U8Of(fs[3]).ok THEN Bad
        ELSE LET h == fs[4] IN
             IF Len(h) % 2 = 1 \/ \E k \in 1..Len(h) : ~IsHex(h[k]) THEN Bad
             ELSE done("ok", rec(TDS, <<>>, B16(U16Of(fs[1]).v) \o <<U8Of(fs[2]).v, U8Of(fs[3]).v>>
                                          \o [j \in 1..(Len(h) \div 2) |-> HexVal(h[2 * j - 1]) * 16 + HexVal(h[2 * j])], <<>>)))
  ELSE Bad                                                           \* unknown type keyword

\* names inside the data count against the builders' length limits too: a record whose wire form cannot exist is not judged
Judged(c) == c.k # "ok" \/ Len(WireRR(c.rec)) <= 4000

\* e: recorded call [text, res, wire]; "" when the code agrees with the grammar
GrammarWhy(e) ==
  LET c == Classify(e.text) IN
  IF e.res = "panic" THEN "synthesis panicked"
  ELSE IF c.k = "ok" /\ Judged(c) /\ e.res # "ok" THEN "text of the supported grammar was rejected: " \o e.err
  ELSE IF c.k = "err" /\ e.res # "err" THEN "text the grammar excludes was accepted"
  ELSE IF c.k = "ok" /\ e.res = "ok" /\ e.wire # WireRR(c.rec) THEN "the synthesised bytes are not the RFC 1035 wire form of the record the text denotes"
  ELSE ""
====
