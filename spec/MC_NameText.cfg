CONSTANTS
  MaxLabel = 3
  MaxName = 9
  MaxRefs = 1
  LabelCap = 2
  OutCap = 7
  Alphabet = {97, 45, 46, 200}
  MaxLen = 7
INIT Init
NEXT Next
CHECK_DEADLOCK FALSE
