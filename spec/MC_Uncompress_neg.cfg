CONSTANTS
  MaxRecs = 4
  Sizes = {1, 2, 3}
  LatchOnNext = TRUE
SPECIFICATION Spec
INVARIANTS Carried NeverShorter
PROPERTY Terminates
CHECK_DEADLOCK FALSE
