CONSTANTS
  Names = {"n3", "n5"}
  MaxRecs = 1
  MaxOps = 3
  BugEdnsShift = FALSE
  BugCache = FALSE
  BugIterUncompress = FALSE
  BugDelOpt = FALSE
  BugSkipLeft = FALSE
  BugRecompute = FALSE
  BugOptTtl = FALSE
  BugOptName = TRUE
  BugInsertOrder = FALSE
INIT Init2
NEXT Next
INVARIANTS NoBad ViewCoherent EdnsCoherent FlagSound CacheCoherent CursorCoherent OptKeepsRoot NoJunk
CHECK_DEADLOCK FALSE
