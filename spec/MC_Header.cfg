CONSTANTS
  Args = {0, 1, 15, 16, 32, 64, 128, 256, 512, 1024, 2048, 16384, 30720, 32768, 34800, 34815, 65535, 4660, 43981}
INIT Init
NEXT Next
CHECK_DEADLOCK FALSE
