---- MODULE MC_ObjectImpl ----
(***************************************************************************)
(* The object-level transcription is right on compressed packets too:      *)
(* for every message of the Gen_S1 universe written with compression       *)
(* pointers ("full": whole names and tails shared; "tails": tails only),   *)
(*   - UncompressOut is the pointer-free encoding of the same message,     *)
(*     byte for byte (the post-condition of C05 and more);                 *)
(*   - every cursor operation that decompresses first (set name, delete,   *)
(*     in-place decompression) on every record of every section yields     *)
(*     acceptable bytes that decode to the specified message (C09), a view *)
(*     equal to the fresh view (C08) and a cursor on the same record.      *)
(* ObjDefect = "stale-rdlength" / "stale-cursor" are negative controls.    *)
(***************************************************************************)
EXTENDS Gen_S1, ObjectImpl

CONSTANTS NS1

NewNames == << <<0>>, <<1, 122, 0>>, <<2, 122, 89, 1, 100, 0>>, <<40>> \o [x \in 1..40 |-> 119] \o <<3, 111, 114, 103, 0>> >>

VARIABLES kk, lay, op, sec, idx, arg, fin
Secs == {"Q", "AN", "NS", "AR"}
MCInit == /\ fin = 0 /\ i = 0 /\ done = 0 /\ kk \in 1..NS1 /\ lay \in {"full", "tails"}
          /\ op \in {"set", "del", "unc"} /\ sec \in Secs /\ idx \in 1..3 /\ arg \in 1..Len(NewNames)
          /\ (op # "set" => arg = 1)

NoFlag(v) == [oq |-> v.oq, oan |-> v.oan, ons |-> v.ons, oar |-> v.oar, oedns |-> v.oedns, ecount |-> v.ecount]

Holds ==
  LET m == Msg(Index(kk))
      p == Encode(m, lay)
      u == UncompressOut(p)
      a == CMsgX(p)
      rs == SecOf(DecodeT(p), sec)
  IN /\ u = Encode(m, "plain")
     /\ WellFormed(u) /\ SameMessage(p, u) /\ PointerFreePkt(u)
     /\ IF idx > Len(rs) THEN TRUE
        ELSE LET r == rs[idx]
                 c0 == [off |-> r.off, ne |-> r.name_end, nx |-> r.next, tomb |-> FALSE]
                 st0 == [p |-> p, v |-> ViewMC(p, TRUE), c |-> c0]
                 isOpt == sec # "Q" /\ r.type = TOPT IN
             IF op = "unc" THEN
                  LET pr == SubUncompress(st0, sec) IN
                  /\ pr.ok /\ pr.p = u /\ NoFlag(pr.v) = ViewOf(u) /\ ~pr.v.mc
                  /\ pr.c = CursorAt(u, sec, SecOf(DecodeT(u), sec)[idx].off)
             ELSE IF op = "set" THEN
                  LET pr == SubSetRawName(st0, sec, NewNames[arg]) IN
                  IF isOpt /\ arg # 1 THEN ~pr.ok /\ pr.p = p
                  ELSE /\ pr.ok /\ Structural(pr.p) /\ ViewOf(pr.p) = NoFlag(pr.v) /\ ~pr.v.mc
                       /\ CMsgX(pr.p) = WithSec(a, sec, [SecOf(a, sec) EXCEPT ![idx].n = UName(NewNames[arg], 0).labels])
                       /\ pr.c = CursorAt(pr.p, sec, SecOf(DecodeT(pr.p), sec)[idx].off)
             ELSE LET pr == SubDelete(st0, sec) IN
                  /\ pr.ok /\ Structural(pr.p) /\ ViewOf(pr.p) = NoFlag(pr.v) /\ ~pr.v.mc
                  /\ CMsgX(pr.p) = WithSec(a, sec, RemoveAt(SecOf(a, sec), idx))
                  /\ pr.c.tomb
MCNext == fin = 0 /\ fin' = 1 /\ UNCHANGED <<kk, lay, op, sec, idx, arg, i, done>>
          /\ Assert(Holds, <<"the object-level transcription breaks C05 / C08 / C09 on", kk, lay, op, sec, idx, arg>>)
====
