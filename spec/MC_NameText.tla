---- MODULE MC_NameText ----
(* every string over a small alphabet, with and without a default zone, at scaled caps:   *)
(* the converter machine obeys the declarative statement (C14) everywhere.               *)
EXTENDS NameText
CONSTANTS Alphabet, MaxLen
VARIABLES t, z, done
Zones == {<<>>, <<1, 122, 0>>}
Init == t \in UNION { [1..n -> Alphabet] : n \in 0..MaxLen } /\ z \in Zones /\ done = 0
Obeys == LET r == Conv(t, z) IN ConvWhy(t, z, r.res, r.wire) = ""
Next == done = 0 /\ done' = 1 /\ UNCHANGED <<t, z>> /\ Assert(Obeys, <<"converter machine violates C14 on", t, z, Conv(t, z)>>)
====
