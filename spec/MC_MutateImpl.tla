---- MODULE MC_MutateImpl ----
(***************************************************************************)
(* The transcribed byte moves and offset shifts are right: on every        *)
(* pointer-free packet of the Gen_S1 universe, for every record position   *)
(* of every section (OPT included) and every operation of the menu,        *)
(*   - the resulting bytes are acceptable and decode to the specified      *)
(*     message (only that owner name replaced / only that record removed / *)
(*     the record appended to its section),                                *)
(*   - the shifted view equals the fresh view of the resulting bytes,      *)
(*   - the cursor still designates its record (or is a tombstone).         *)
(* BugEdns = TRUE (offset_edns not shifted, F19) is the negative control.  *)
(***************************************************************************)
EXTENDS Gen_S1, MutateImpl

CONSTANTS NS1, BugEdns

NewNames == << <<0>>, <<1, 122, 0>>, <<2, 122, 89, 1, 100, 0>>, <<40>> \o [x \in 1..40 |-> 119] \o <<3, 111, 114, 103, 0>> >>
NewRR == <<1, 105, 0, 0, 1, 0, 1, 0, 0, 0, 9, 0, 4, 1, 2, 3, 4>>       \* i. 9 IN A 1.2.3.4
NewRRRec == [n |-> <<<<105>>>>, t |-> 1, c |-> 1, ttl |-> <<0, 0, 0, 9>>, names |-> <<>>, fixed |-> <<1, 2, 3, 4>>]

VARIABLES kk, op, sec, idx, arg, fin
Secs == {"Q", "AN", "NS", "AR"}
MCInit == /\ fin = 0 /\ i = 0 /\ done = 0 /\ kk \in 1..NS1
          /\ op \in {"set", "del", "ins"} /\ sec \in Secs /\ idx \in 1..3 /\ arg \in 1..Len(NewNames)
          /\ (op # "set" => arg = 1) /\ (op = "ins" => idx = 1)

Holds ==
  LET p == Encode(Msg(Index(kk)), "plain")
      a == CMsgX(p)
      rs == SecOf(DecodeT(p), sec)
      v0 == ViewOf(p)
  IN IF op = "ins" THEN
          IF sec = "Q" THEN TRUE
          ELSE LET st == Insert([p |-> p, v |-> v0, c |-> [off |-> 0, ne |-> 0, nx |-> 0, tomb |-> TRUE]], sec, NewRR) IN
               /\ Structural(st.p) /\ ViewOf(st.p) = st.v
               /\ CMsgX(st.p) = WithSec(a, sec, Append(SecOf(a, sec), NewRRRec))
     ELSE IF idx > Len(rs) THEN TRUE
     ELSE LET c0 == CursorAt(p, sec, rs[idx].off)
              st0 == [p |-> p, v |-> v0, c |-> c0]
              isOpt == sec # "Q" /\ rs[idx].type = TOPT IN
          IF op = "set" THEN
               IF isOpt /\ arg # 1 THEN TRUE          \* refused by the library: OPT keeps the root name
               ELSE LET st1 == SetRawName(st0, NewNames[arg])
                        st == IF BugEdns THEN [st1 EXCEPT !.v.oedns = v0.oedns] ELSE st1 IN
                    /\ Structural(st.p) /\ ViewOf(st.p) = st.v
                    /\ CMsgX(st.p) = WithSec(a, sec, [SecOf(a, sec) EXCEPT ![idx].n = UName(NewNames[arg], 0).labels])
                    /\ st.c = CursorAt(st.p, sec, SecOf(DecodeT(st.p), sec)[idx].off)
          ELSE LET st == Delete(st0) IN
               /\ Structural(st.p) /\ ViewOf(st.p) = st.v
               /\ CMsgX(st.p) = WithSec(a, sec, RemoveAt(SecOf(a, sec), idx))
               /\ st.c.tomb
MCNext == fin = 0 /\ fin' = 1 /\ UNCHANGED <<kk, op, sec, idx, arg, i, done>>
          /\ Assert(Holds, <<"the transcribed mutation breaks C08 / C09 on", kk, op, sec, idx, arg>>)
====
