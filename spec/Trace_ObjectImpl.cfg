CONSTANTS
  MaxLabel = 63
  MaxName = 255
  MaxRefs = 16
  ObjDefect = "none"
INIT Init
NEXT NextImpl
CHECK_DEADLOCK FALSE
