CONSTANTS
  NThreads = 2
  Program <- Prog4
  Shared = TRUE
INIT Init
NEXT Next
INVARIANT Private
ACTION_CONSTRAINT Emit
CHECK_DEADLOCK FALSE
