---- MODULE Trace_History ----
(* C08 / C09 / C10: trace validation of mutation histories, one event per operation. *)
EXTENDS History, Json, IOUtils

Rec == ndJsonDeserialize(IOEnv.TRACE)
VARIABLES l, done
Init == l \in 1..Len(Rec) /\ done = 0
Once == done = 0 /\ done' = 1 /\ l' = l
Report(tag, why) == PrintT("@@" \o tag \o "|" \o ToString(l) \o "|" \o why)

Kind(e) == IF e.o.op = "cursor" THEN "cursor:" \o (IF e.subs = <<>> THEN "-" ELSE e.subs[1].s) ELSE e.o.op
Hist(e) == IF e.k # "step" THEN Report("VIOLATION-HIST", e.k)
           ELSE LET w == StepWhy(e, TRUE) IN
                /\ PrintT("@@FACT|" \o ToString(l) \o "|" \o Kind(e) \o "|" \o (IF e.res = "panic" THEN "panic" ELSE e.res) \o "|" \o (IF w = "-" THEN "skipped" ELSE IF e.res # "panic" /\ ~PolicyOK(e.pre) THEN "policy-broken" ELSE "normal"))
                /\ (IF w \in {"", "-"} THEN TRUE ELSE Report("VIOLATION-HIST", w))
NextHist == Once /\ Hist(Rec[l])
====
