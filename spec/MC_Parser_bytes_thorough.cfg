CONSTANTS
  MaxLabel = 2
  MaxName = 6
  MaxRefs = 2
  Mode = "bytes"
  Alphabet = {0, 1, 2, 12, 41, 97, 192}
  MaxBody = 6
  Bug = "none"
SPECIFICATION MCSpec
INVARIANTS NoBadRead CursorInBounds EdnsWindow Agree StepBound
PROPERTY Terminates
CHECK_DEADLOCK FALSE
