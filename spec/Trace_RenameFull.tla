---- MODULE Trace_RenameFull ----
(* Two uses of the transcribed renamer on recorded rename calls:                                         *)
(*  - as a design check: RenameWhy (C07's post-condition) evaluated on the transcription's own output;   *)
(*  - as a note: is the transcription's output byte-identical to the real code's?                        *)
EXTENDS RenameFull, Json, IOUtils
Rec == ndJsonDeserialize(IOEnv.TRACE)
VARIABLES l, done
Init == l \in 1..Len(Rec) /\ done = 0
Next == /\ done = 0 /\ done' = 1 /\ l' = l
        /\ LET e == Rec[l] IN
           IF e.k # "rename" \/ ~WellFormed(e.pkt) \/ ~GoodName(e.target) \/ ~GoodName(e.source)
           THEN PrintT("@@IMPL|" \o ToString(l) \o "|skipped|-")
           ELSE LET t == RenameOut(e.pkt, e.target, e.source, e.suffix)
                    w == RenameWhy(e.pkt, e.target, e.source, e.suffix, t.k, t.b) IN
                PrintT("@@IMPL|" \o ToString(l) \o "|" \o (IF t.k = e.out.k /\ (t.k = "err" \/ t.b = e.out.b) THEN "same" ELSE "different")
                       \o "|" \o (IF w = "" THEN "post-holds" ELSE "post-fails: " \o w))
====
