---- MODULE Gen_Ptr ----
(***************************************************************************)
(* Packets born in the specification that explore the pointer policy:      *)
(* names that jump into bytes the parser never validated as a name (the    *)
(* header, the opaque data of a record of unknown type) and continue from  *)
(* there with labels, roots and further pointers in every direction.       *)
(*                                                                         *)
(*   0..11   header; the two id bytes are taken from a menu (label "a",    *)
(*           pointer to 12, pointer to 30, zeros)                          *)
(*   12..18  question  a. IN A                                             *)
(*   19..29  record 1: root owner, TYPE99, RDLENGTH 6                      *)
(*   30..35  its data: three 2-byte cells, each a 1-byte label, a root     *)
(*           (+ filler) or a pointer to one of Targets                     *)
(*   36..    record 2: owner = [optional label] pointer to one of Targets  *)
(* Every combination is emitted; the specification's verdict (WhyNot) and  *)
(* the code's are compared by trace validation like for any other input.   *)
(***************************************************************************)
EXTENDS Message, Json, IOUtils

Targets == {0, 12, 13, 30, 32, 34, 36}
Ids == {<<0, 0>>, <<1, 97>>, <<192, 12>>, <<192, 30>>, <<192, 34>>}
Cells == {<<1, 98>>, <<0, 7>>} \cup {<<192, t>> : t \in Targets}
Owners == {<<192, t>> : t \in Targets} \cup {<<1, 99, 192, t>> : t \in {30, 32, 34}}

Pkt(id, c1, c2, c3, own) ==
  id \o <<128, 0, 0, 1, 0, 2, 0, 0, 0, 0>> \o <<1, 97, 0, 0, 1, 0, 1>>
     \o <<0, 0, 99, 0, 1, 0, 0, 0, 0, 0, 6>> \o c1 \o c2 \o c3
     \o own \o <<0, 1, 0, 1, 0, 0, 0, 5, 0, 4, 1, 2, 3, 4>>

VARIABLES id, c1, c2, c3, own, done
Init == id \in Ids /\ c1 \in Cells /\ c2 \in Cells /\ c3 \in Cells /\ own \in Owners /\ done = 0
Next == /\ done = 0 /\ done' = 1 /\ UNCHANGED <<id, c1, c2, c3, own>>
        /\ PrintT("@@REPLAY|" \o ToJson([pkt |-> Pkt(id, c1, c2, c3, own)]))
====
