CONSTANTS
  MaxLabel = 63
  MaxName = 255
  MaxRefs = 16
  Mode = "tokens"
  Alphabet = {0, 1, 2, 12, 97, 192}
  MaxBody = 0
  Bug = "opt-dup"
SPECIFICATION MCSpec
INVARIANTS NoBadRead CursorInBounds EdnsWindow Agree StepBound
PROPERTY Terminates
CHECK_DEADLOCK FALSE
