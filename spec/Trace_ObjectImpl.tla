---- MODULE Trace_ObjectImpl ----
(***************************************************************************)
(* The recorded sub-steps of the real object against the byte-level        *)
(* transcription ObjectImpl: for every cursor sub-step (and every insert)  *)
(* the predicted bytes, section offsets, EDNS offset and count, pointer    *)
(* flag and cursor are compared with the recorded ones.  Each sub-step is  *)
(* judged from the *recorded* state before it (full state is logged), so   *)
(* one difference does not hide the following ones.                        *)
(* Output: FACT lines (what was compared) and NOTE lines (differences).    *)
(***************************************************************************)
EXTENDS ObjectImpl, Json, IOUtils

Rec == ndJsonDeserialize(IOEnv.TRACE)
VARIABLES l, done
Init == l \in 1..Len(Rec) /\ done = 0
Once == done = 0 /\ done' = 1 /\ l' = l
Note(tag, what) == PrintT("@@" \o tag \o "|" \o ToString(l) \o "|" \o what)

ObsView(v) == [oq |-> Opt0(v.oq), oan |-> Opt0(v.oan), ons |-> Opt0(v.ons), oar |-> Opt0(v.oar),
               oedns |-> Opt0(v.oedns), ecount |-> v.ecount, mc |-> v.mc]
ObsCur(o) == IF o.tomb THEN [off |-> 0, ne |-> 0, nx |-> o.next, tomb |-> TRUE]
             ELSE [off |-> o.off, ne |-> o.name_end, nx |-> o.next, tomb |-> FALSE]
\* a tombstone's offset_next is not observable through the API: compare the flag only
SameCur(a, b) == IF a.tomb \/ b.tomb THEN a.tomb = b.tomb ELSE a = b

OpName(sub) == CASE sub = "set_raw_name" -> "set" [] sub = "delete" -> "del" [] sub = "uncompress" -> "unc" [] OTHER -> sub
\* "" (agrees), "-" (not predicted), or the first difference
SubDiff(st, sec, incl, u) ==
  IF u.res = "panic" THEN "-"
  ELSE IF ~Structural(st.p) THEN "-"
  ELSE IF sec = "E" /\ u.s \notin {"next", "uncompress"} THEN "-"
  ELSE IF sec = "E" /\ u.s = "uncompress" /\ st.v.mc /\ ~PolicyOK(st.p) THEN "-"
  ELSE IF sec = "E" /\ u.s = "uncompress" THEN
       LET pr == SubUncompressE(st) IN
       IF u.res # "ok" THEN "uncompress through an option cursor: the transcription succeeds, the object reports " \o u.res \o " " \o u.e
       ELSE IF pr.p # u.bytes THEN "uncompress through an option cursor: bytes differ from the transcription"
       ELSE IF pr.v # ObsView(u.view) THEN "uncompress through an option cursor: bookkeeping differs from the transcription"
       ELSE IF ~SameCur(pr.c, ObsCur(u.obs)) THEN "uncompress through an option cursor: cursor differs from the transcription"
       ELSE ""
  ELSE IF u.s = "next" THEN
       LET pr == IF sec = "E" THEN SubNextE(st) ELSE SubNext(st, sec, incl) IN
       IF pr.ok # (u.res = "ok") THEN "next: the transcription " \o (IF pr.ok THEN "yields a record" ELSE "ends the walk") \o ", the reader " \o (IF u.res = "ok" THEN "yields a record" ELSE "ends the walk")
       ELSE IF ~pr.ok THEN ""
       ELSE IF u.bytes # st.p THEN "next: bytes changed"
       ELSE IF ~SameCur(pr.c, ObsCur(u.obs)) THEN "next: cursor differs from the transcription"
       ELSE ""
  ELSE IF st.v.mc /\ ~PolicyOK(st.p) /\ u.s \in {"set_raw_name", "delete", "uncompress"} THEN "-"     \* the re-parse inside may refuse
  ELSE IF u.res = "na" THEN "-"
  ELSE LET pr == CASE u.s = "set_raw_name" -> SubSetRawName(st, sec, u.arg)
                   [] u.s = "delete" -> SubDelete(st, sec)
                   [] u.s = "uncompress" -> SubUncompress(st, sec)
                   [] u.s = "set_ttl" -> SubSetTtl(st, u.arg)
                   [] u.s = "set_ip" -> SubSetIp(st, u.arg)
       IN
       IF pr.ok # (u.res = "ok") THEN u.s \o ": the transcription " \o (IF pr.ok THEN "succeeds" ELSE "fails") \o ", the object reports " \o u.res \o " " \o u.e
       ELSE IF ~pr.ok THEN (IF u.bytes = st.p THEN "" ELSE u.s \o ": failed, bytes differ from before")
       ELSE IF pr.p # u.bytes THEN u.s \o ": bytes differ from the transcription"
       ELSE IF pr.v # ObsView(u.view) THEN u.s \o ": bookkeeping differs from the transcription"
       ELSE IF ~SameCur(pr.c, ObsCur(u.obs)) THEN u.s \o ": cursor differs from the transcription"
       ELSE IF u.s \in {"set_raw_name", "delete", "uncompress"}
               /\ CacheFilledAfter(OpName(u.s), pr.ok, st.cf, st.v.mc, QD(st.p) = 1) # (u.view.cached # <<>>)
            THEN u.s \o ": the question cache is " \o (IF u.view.cached # <<>> THEN "kept" ELSE "reset") \o ", the transcription says otherwise"
       ELSE ""

RECURSIVE Fold(_, _, _, _, _, _)
\* returns <<compared, first difference or "">>
Fold(subs, k, st, sec, incl, n) ==
  IF k > Len(subs) THEN <<n, "">>
  ELSE LET u == subs[k] IN
       IF u.res = "panic" THEN <<n, "">>
       ELSE IF u.res = "end" THEN (LET d == SubDiff(st, sec, incl, u) IN IF d \in {"", "-"} THEN <<IF d = "" THEN n + 1 ELSE n, "">> ELSE <<n, d>>)
       ELSE LET d == SubDiff(st, sec, incl, u)
                nxt == [p |-> u.bytes, v |-> ObsView(u.view), c |-> ObsCur(u.obs), cf |-> u.view.cached # <<>>] IN
            IF d \notin {"", "-"} THEN <<n, d>>
            ELSE IF Len(u.bytes) < 12 THEN <<n, "">>
            ELSE Fold(subs, k + 1, nxt, sec, incl, IF d = "" THEN n + 1 ELSE n)

StepDiff(e) ==
  IF e.k # "step" \/ e.res = "panic" \/ Len(e.pre) < 12 THEN <<0, "">>
  ELSE IF ~Structural(e.pre) THEN <<0, "">>
  ELSE LET o == e.o IN
  IF o.op = "cursor" THEN
       IF ~e.has_first THEN <<0, "">>
       ELSE LET v0 == [ViewMC(e.pre, e.mc0) EXCEPT !.mc = e.mc0] IN
            Fold(e.subs, 1, [p |-> e.pre, v |-> v0, c |-> ObsCur(e.first), cf |-> e.cached0], o.sec, o.incl, 0)
  ELSE IF o.op \in {"insert", "insert_q"} THEN
       IF e.mc0 /\ ~PolicyOK(e.pre) THEN <<0, "">>
       ELSE IF o.op = "insert" /\ o.rec.bad THEN <<0, "">>
       ELSE LET pr == IF o.op = "insert" THEN ObjInsert(e.pre, e.mc0, o.sec, o.rec.r) ELSE ObjInsertQ(e.pre, e.mc0, o.labels) IN
            IF pr.ok # (e.res = "ok") THEN <<0, o.op \o ": the transcription " \o (IF pr.ok THEN "succeeds" ELSE "fails") \o ", the object reports " \o e.res \o " " \o e.e>>
            ELSE IF pr.p # e.post THEN <<0, o.op \o ": bytes differ from the transcription">>
            ELSE IF pr.ok /\ pr.v # [x \in DOMAIN pr.v |-> ObsView(e.view)[x]] THEN <<0, o.op \o ": bookkeeping differs from the transcription">>
            ELSE <<1, "">>
  ELSE IF o.op = "rename" THEN
       IF ~PolicyOK(e.pre) \/ ~GoodName(o.target) \/ ~GoodName(o.source) THEN <<0, "">>
       ELSE LET pr == ObjRename(e.pre, o.target, o.source, o.suffix) IN
            IF pr.ok # (e.res = "ok") THEN <<0, "rename: the transcription " \o (IF pr.ok THEN "succeeds" ELSE "fails") \o ", the object reports " \o e.res \o " " \o e.e>>
            ELSE IF pr.p # e.post THEN <<0, "rename: bytes differ from the transcription">>
            ELSE IF pr.ok /\ pr.v # ObsView(e.view) THEN <<0, "rename: bookkeeping differs from the transcription">>
            ELSE IF CacheFilledAfter("ren", pr.ok, e.cached0, e.mc0, TRUE) # (e.view.cached # <<>>) THEN <<0, "rename: the question cache is not what the transcription says">>
            ELSE <<1, "">>
  ELSE IF o.op = "recompute" THEN
       IF e.mc0 /\ ~PolicyOK(e.pre) THEN <<0, "">>
       ELSE LET q == IF e.mc0 THEN UncompressOut(e.pre) ELSE e.pre IN
            IF e.res # "ok" THEN <<0, "recompute: the transcription succeeds, the object reports " \o e.res \o " " \o e.e>>
            ELSE IF q # e.post THEN <<0, "recompute: bytes differ from the transcription">>
            ELSE IF ViewMC(q, FALSE) # ObsView(e.view) THEN <<0, "recompute: bookkeeping differs from the transcription">>
            ELSE IF CacheFilledAfter("recompute", TRUE, e.cached0, e.mc0, TRUE) # (e.view.cached # <<>>) THEN <<0, "recompute: the question cache is not what the transcription says">>
            ELSE <<1, "">>
  ELSE <<0, "">>

Impl(e) == LET r == StepDiff(e) IN
  /\ Note("FACT", ToString(r[1]))
  /\ (IF r[2] = "" THEN TRUE ELSE Note("NOTE-IMPL", r[2]))
\* decompression calls (C05 events): the output is the transcription's, byte for byte
Unc(e) == IF ~WellFormed(e.pkt) \/ e.out.k # "ok" THEN Note("FACT", "0")
          ELSE /\ Note("FACT", "1")
               /\ (IF e.out.b = UncompressOut(e.pkt) THEN TRUE ELSE Note("NOTE-IMPL", "uncompress: bytes differ from the transcription"))
NextUnc == Once /\ (IF Rec[l].k \in {"hang", "abort"} THEN Note("FACT", "0") ELSE Unc(Rec[l]))
NextImpl == Once /\ (IF Rec[l].k \in {"hang", "abort"} THEN Note("FACT", "0") ELSE Impl(Rec[l]))
====
