CONSTANTS
  MaxN = 4
  FixSkip = TRUE
  Restart = TRUE
SPECIFICATION Spec
INVARIANTS InBounds NeverYieldDeleted NeverYieldOptWhenSkipping SectionIsSurvivors AtEnd Bounded
PROPERTY Terminates
CHECK_DEADLOCK FALSE
