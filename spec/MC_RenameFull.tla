---- MODULE MC_RenameFull ----
(* The transcribed renamer satisfies C07's post-condition (Rename!RenameWhy) on the Gen_S1 universe (all     *)
(* layouts, all name-bearing types, OPT anywhere) x a menu of sources (matching at several depths, a case   *)
(* variant, a non-matching name) x targets (short, longer, one that overflows) x both modes.               *)
EXTENDS Gen_S1, RenameFull
CONSTANT NS1
Sources == << <<La>>, <<Lb, La>>, << <<98>>, La>>, <<Lc>>, <<Lab, Lb, La>>, << <<113>> >> >>
Targets == << <<Lc>>, <<Lxyz, Lc>>, <<La>>, <<[x \in 1..60 |-> 116], [x \in 1..60 |-> 116], [x \in 1..60 |-> 116], [x \in 1..50 |-> 116]>> >>
VARIABLES kk, si, ti, sfx, fin
MCInit == fin = 0 /\ i = 0 /\ done = 0 /\ kk \in 1..NS1 /\ si \in 1..Len(Sources) /\ ti \in 1..Len(Targets) /\ sfx \in BOOLEAN
Holds == LET j == Index(kk)  p == Encode(Msg(j), Layout(j))
             tgt == RawName(Targets[ti])  src == RawName(Sources[si])
             t == RenameOut(p, tgt, src, sfx) IN
         RenameWhy(p, tgt, src, sfx, t.k, t.b) = ""
MCNext == fin = 0 /\ fin' = 1 /\ UNCHANGED <<kk, si, ti, sfx, i, done>>
          /\ Assert(Holds, <<"the transcribed renamer violates C07 on", kk, si, ti, sfx>>)
====
