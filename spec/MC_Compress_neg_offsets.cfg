CONSTANTS
 Labels = {1, 2}
 MaxNames = 3
 MaxDepth = 3
 MaxSuffixes = 3
 MaxSuffixLen = 7
 MaxRefs = 2
 Gap = 4
 BugInputOffsets = TRUE
 TrackDepth = TRUE
INIT Init
NEXT Next
INVARIANTS DictSound OutputFaithful NotLonger ChainsAdmissible
CHECK_DEADLOCK FALSE
