INIT Init
NEXT NextC15
CHECK_DEADLOCK FALSE
