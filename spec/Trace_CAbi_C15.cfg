CONSTANTS
  MaxLabel = 63
  MaxName = 255
  MaxRefs = 16
INIT Init
NEXT NextC15
CHECK_DEADLOCK FALSE
