CONSTANTS
  MaxLabel = 63
  MaxName = 255
  MaxRefs = 16
INIT Init
NEXT NextHist
CHECK_DEADLOCK FALSE
