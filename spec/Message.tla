---- MODULE Message ----
(***************************************************************************)
(* The abstract DNS message carried by a well-formed packet, and the       *)
(* relations between packets that the properties talk about.               *)
(*                                                                         *)
(*   Decode(p)        records of every section with their byte extents     *)
(*                    (C03: what the iterators must yield)                 *)
(*   Canon(p, r)      pointer-free form of a record's data and the names   *)
(*                    inside it                                            *)
(*   Summary          header / question / EDNS getters (C04)               *)
(*   FreshView(p)     what a fresh parse reports about p (C08)             *)
(*   SameMessage      identical message (C05), SameUpToCase (C06/C07)      *)
(*   PointerFreePkt   no compression pointer in any understood name        *)
(*   Structural(p)    WellFormed with the two caller-breakable message     *)
(*                    level policy clauses lifted (C08 (ii) in DESIGN.md)  *)
(*                                                                         *)
(* All operators assume WellFormed(p) (or Structural(p) for the T-variants)*)
(* unless stated otherwise.  u32 values are 4-byte sequences: TLC integers *)
(* are 32-bit.                                                             *)
(***************************************************************************)
EXTENDS Wire

Lower(b) == IF b >= 65 /\ b <= 90 THEN b + 32 ELSE b
LowerSeq(s) == [k \in 1..Len(s) |-> Lower(s[k])]
LowerLabels(ls) == [i \in 1..Len(ls) |-> LowerSeq(ls[i])]

\* lower-cased dotted presentation of a label sequence, as name() returns it.
\* A '.' inside a label is escaped as \046 by the code; labels accepted by the
\* compressed-name reader never contain one, DNAME targets are never presented.
RECURSIVE Text(_, _, _)
Text(labels, i, acc) ==
  IF i > Len(labels) THEN acc
  ELSE Text(labels, i + 1, (IF i = 1 THEN acc ELSE Append(acc, 46)) \o LowerSeq(labels[i]))
NameText(labels) == Text(labels, 1, <<>>)

\* pointer-free wire form of a label sequence
RECURSIVE RawOf(_, _, _)
RawOf(labels, i, acc) ==
  IF i > Len(labels) THEN Append(acc, 0)
  ELSE RawOf(labels, i + 1, Append(acc, Len(labels[i])) \o labels[i])
RawName(labels) == RawOf(labels, 1, <<>>)

RECURSIVE WireLenFrom(_, _)
WireLenFrom(labels, i) == IF i > Len(labels) THEN 1 ELSE Len(labels[i]) + 1 + WireLenFrom(labels, i + 1)
WireLen(labels) == WireLenFrom(labels, 1)

----------------------------------------------------------------------------
(* Records *)

DecRR(p, off) ==
  LET nm == CName(p, off)  e == nm.end  rdl == U16(p, e + 8)  d == e + 10 IN
  [off |-> off, name_end |-> e, next |-> d + rdl, labels |-> nm.labels,
   type |-> U16(p, e), class |-> U16(p, e + 2), ttl |-> SubSeq(p, e + 5, e + 8),
   rdlen |-> rdl, rdata |-> SubSeq(p, d + 1, d + rdl)]

RECURSIVE DecRRs(_, _, _, _)
DecRRs(p, off, n, acc) ==
  IF n = 0 THEN acc ELSE LET r == DecRR(p, off) IN DecRRs(p, r.next, n - 1, Append(acc, r))
EndOf(rrs, dflt) == IF Len(rrs) = 0 THEN dflt ELSE rrs[Len(rrs)].next

QD(p) == U16(p, 4)
\* end of the question section; 12 when the question has been deleted
QEnd(p) == IF QD(p) = 0 THEN 12 ELSE CName(p, 12).end + 4

\* tolerant decoding: q is a sequence of 0 or 1 questions
DecodeT(p) ==
  LET s == QEnd(p)
      an == DecRRs(p, s, U16(p, 6), <<>>)
      ns == DecRRs(p, EndOf(an, s), U16(p, 8), <<>>)
      ar == DecRRs(p, EndOf(ns, EndOf(an, s)), U16(p, 10), <<>>)
  IN [q |-> IF QD(p) = 0 THEN <<>>
            ELSE LET q == CName(p, 12) IN
                 <<[off |-> 12, name_end |-> q.end, next |-> q.end + 4, labels |-> q.labels,
                    type |-> U16(p, q.end), class |-> U16(p, q.end + 2)]>>,
      an |-> an, ns |-> ns, ar |-> ar]

\* decoding of an accepted packet (exactly one question)
Decode(p) == LET m == DecodeT(p) IN [q |-> m.q[1], an |-> m.an, ns |-> m.ns, ar |-> m.ar]

AllRecs(m) == m.an \o m.ns \o m.ar

\* extents of the EDNS options in [from, to)
RECURSIVE OptExt(_, _, _, _)
OptExt(p, from, to, acc) ==
  IF from >= to THEN acc
  ELSE LET nx == from + 4 + U16(p, from + 2) IN
       OptExt(p, nx, to, Append(acc, [off |-> from, next |-> nx, code |-> U16(p, from), len |-> U16(p, from + 2)]))

HasOpt(m) == \E i \in 1..Len(m.ar) : m.ar[i].type = TOPT
OptIdxOf(m) == CHOOSE i \in 1..Len(m.ar) : m.ar[i].type = TOPT
OptOf(m) == IF HasOpt(m) THEN m.ar[OptIdxOf(m)] ELSE [type |-> 0]

----------------------------------------------------------------------------
(* Canonical record data *)

NameBytes(p, o) ==
  LET n == CName(p, o) IN [raw |-> RawName(n.labels), end |-> n.end, nptr |-> n.nptr, labels |-> n.labels]

\* rd: pointer-free data; names: label sequences inside the data; nptr: pointers used by them
Canon(p, r) ==
  LET d == r.name_end + 10 IN
  IF r.type \in {TNS, TCNAME, TPTR} THEN
       LET a == NameBytes(p, d) IN [rd |-> a.raw, nptr |-> a.nptr, names |-> <<a.labels>>]
  ELSE IF r.type = TMX THEN
       LET a == NameBytes(p, d + 2) IN
       [rd |-> SubSeq(p, d + 1, d + 2) \o a.raw, nptr |-> a.nptr, names |-> <<a.labels>>]
  ELSE IF r.type = TSOA THEN
       LET a == NameBytes(p, d)  b == NameBytes(p, a.end) IN
       [rd |-> a.raw \o b.raw \o SubSeq(p, b.end + 1, b.end + 20), nptr |-> a.nptr + b.nptr,
        names |-> <<a.labels, b.labels>>]
  ELSE [rd |-> r.rdata, nptr |-> 0, names |-> <<>>]

\* the part of a record's data that is not a name
FixedOf(r, c) ==
  IF c.names = <<>> THEN c.rd
  ELSE IF r.type = TMX THEN SubSeq(c.rd, 1, 2)
  ELSE IF r.type = TSOA THEN SubSeq(c.rd, Len(c.rd) - 19, Len(c.rd))
  ELSE <<>>

OwnerPtrs(p, r) == CName(p, r.off).nptr

----------------------------------------------------------------------------
(* Relations between packets *)

\* identical message, names byte-identical (C05)
SameMessage(pin, pout) ==
  LET a == Decode(pin)  b == Decode(pout)  ra == AllRecs(a)  rb == AllRecs(b) IN
  /\ SubSeq(pin, 1, 12) = SubSeq(pout, 1, 12)
  /\ a.q.labels = b.q.labels /\ a.q.type = b.q.type /\ a.q.class = b.q.class
  /\ Len(a.an) = Len(b.an) /\ Len(a.ns) = Len(b.ns) /\ Len(a.ar) = Len(b.ar)
  /\ \A i \in 1..Len(ra) :
       /\ ra[i].labels = rb[i].labels /\ ra[i].type = rb[i].type
       /\ ra[i].class = rb[i].class /\ ra[i].ttl = rb[i].ttl
       /\ Canon(pin, ra[i]).rd = Canon(pout, rb[i]).rd

\* identical message up to the ASCII case of names (C06, C07)
SameUpToCase(pin, pout) ==
  LET a == Decode(pin)  b == Decode(pout)  ra == AllRecs(a)  rb == AllRecs(b) IN
  /\ SubSeq(pin, 1, 12) = SubSeq(pout, 1, 12)
  /\ LowerLabels(a.q.labels) = LowerLabels(b.q.labels) /\ a.q.type = b.q.type /\ a.q.class = b.q.class
  /\ Len(a.an) = Len(b.an) /\ Len(a.ns) = Len(b.ns) /\ Len(a.ar) = Len(b.ar)
  /\ \A i \in 1..Len(ra) :
       /\ LowerLabels(ra[i].labels) = LowerLabels(rb[i].labels) /\ ra[i].type = rb[i].type
       /\ ra[i].class = rb[i].class /\ ra[i].ttl = rb[i].ttl
       /\ LET ca == Canon(pin, ra[i])  cb == Canon(pout, rb[i]) IN
          /\ FixedOf(ra[i], ca) = FixedOf(rb[i], cb)
          /\ [k \in 1..Len(ca.names) |-> LowerLabels(ca.names[k])]
               = [k \in 1..Len(cb.names) |-> LowerLabels(cb.names[k])]

PointerFreePkt(p) ==
  LET m == Decode(p)  rs == AllRecs(m) IN
  /\ CName(p, 12).nptr = 0
  /\ \A i \in 1..Len(rs) : OwnerPtrs(p, rs[i]) = 0 /\ Canon(p, rs[i]).nptr = 0

\* record boundaries of a packet: start of every record (question included, OPT included) and the end
Boundaries(p) ==
  LET m == Decode(p)  rs == AllRecs(m) IN <<12>> \o [i \in 1..Len(rs) |-> rs[i].off] \o <<Len(p)>>

----------------------------------------------------------------------------
(* C08 (ii): acceptance with the two caller-breakable policy clauses lifted *)

WithQR(p) == [p EXCEPT ![3] = IF p[3] >= 128 THEN p[3] ELSE p[3] + 128]
WithQ(p)  == IF QD(p) = 1 THEN p
             ELSE SubSeq(p, 1, 4) \o <<0, 1>> \o SubSeq(p, 7, 12) \o <<0, 0, 1, 0, 1>> \o SubSeq(p, 13, Len(p))
\* (setting the QR bit changes a header byte: a name written through a pointer into the header would change with it,
\* so the bytes are tried as they are first)
Structural(p) == Len(p) >= 12 /\ QD(p) <= 1 /\ (WellFormed(WithQ(p)) \/ WellFormed(WithQ(WithQR(p))))
\* the two lifted clauses
PolicyOK(p) == QD(p) = 1 /\ (p[3] >= 128 \/ (U16(p, 6) = 0 /\ U16(p, 8) = 0))
PointerFreeT(p) == PointerFreePkt(WithQ(WithQR(p)))

----------------------------------------------------------------------------
(* What a fresh parse reports (C04 summary, C08 view).  Optional values are *)
(* sequences of length 0 or 1.                                             *)

FreshView(p) ==
  LET m == DecodeT(p)  has == HasOpt(m)  o == OptOf(m) IN
  [oq |-> IF QD(p) = 0 THEN <<>> ELSE <<12>>,
   oan |-> IF Len(m.an) = 0 THEN <<>> ELSE <<m.an[1].off>>,
   ons |-> IF Len(m.ns) = 0 THEN <<>> ELSE <<m.ns[1].off>>,
   oar |-> IF Len(m.ar) = 0 THEN <<>> ELSE <<m.ar[1].off>>,
   oedns |-> IF has THEN <<o.name_end + 10>> ELSE <<>>,
   ecount |-> IF has THEN Len(OptExt(p, o.name_end + 10, o.next, <<>>)) ELSE 0,
   ver |-> IF has THEN <<p[o.name_end + 6]>> ELSE <<>>,
   xrcode |-> IF has THEN <<p[o.name_end + 5]>> ELSE <<>>,
   xflags |-> IF has THEN <<U16(p, o.name_end + 6)>> ELSE <<>>,
   maxp |-> IF has THEN U16(p, o.name_end + 2) ELSE 512]

\* the 16-bit flag word with opcode and rcode masked out (mask 0x87F0)
FlagBits(w) == (w \div 32768) * 32768 + ((w % 2048) \div 16) * 16

Summary(p) ==
  LET m == Decode(p)  v == FreshView(p)  w == U16(p, 2)  qr == w >= 32768
      xfl == IF v.xflags = <<>> THEN 0 ELSE v.xflags[1] IN
  [tid |-> U16(p, 0), fhi |-> xfl, flo |-> FlagBits(w),
   rcode |-> p[4] % 16, opcode |-> (p[3] \div 8) % 16, qr |-> qr,
   dnssec |-> IF qr THEN (w \div 32) % 2 = 1 ELSE xfl >= 32768,
   ver |-> v.ver, xrcode |-> v.xrcode, ecount |-> v.ecount, maxp |-> v.maxp,
   q_raw0 |-> RawName(m.q.labels), q_text |-> NameText(m.q.labels),
   q_type |-> m.q.type, q_class |-> m.q.class]
====
