CONSTANTS
  MaxLabel = 63
  MaxName = 255
  MaxRefs = 16
  LabelCap = 62
  OutCap = 253
INIT Init
NEXT NextC13
CHECK_DEADLOCK FALSE
