---- MODULE Encode ----
(***************************************************************************)
(* The inverse of Message!Decode: abstract messages flattened to wire      *)
(* format under a choice of name layout, so that packets can be born in    *)
(* the specification (scenario source S1 of DESIGN.md) instead of being    *)
(* guessed by a random generator.                                          *)
(*                                                                         *)
(* An abstract message is                                                  *)
(*   [id, word, q |-> [labels, type, class], an, ns, ar]                   *)
(* and a record is [labels, type, class, ttl (4 bytes), d] where d is one  *)
(* of  [k |-> "raw",  b]            opaque data (A, AAAA, TXT, DNAME, ...) *)
(*     [k |-> "name", n]            NS / CNAME / PTR                       *)
(*     [k |-> "mx",   pref, n]      MX                                     *)
(*     [k |-> "soa",  n1, n2, tail] SOA (tail = 20 bytes)                  *)
(*     [k |-> "opt",  opts]         OPT: sequence of [code, b]; the record *)
(*                                  keeps its place in `ar`                *)
(* Layouts: "plain" no pointer anywhere; "greedy" every name is cut at its *)
(* longest suffix already written (owner names and names inside data are   *)
(* both pointer targets), case-sensitively so that decoding gives back the *)
(* same message; "tails" only whole names are replaced by pointers.        *)
(***************************************************************************)
EXTENDS Message

B16(x) == <<x \div 256, x % 256>>

\* encoder state: bytes written so far and the dictionary of suffixes <<labels, offset>>
RECURSIVE DropLabels(_, _)
DropLabels(ls, k) == IF k = 0 THEN ls ELSE DropLabels(Tail(ls), k - 1)

Lookup(dict, ls) ==
  IF \E i \in 1..Len(dict) : dict[i][1] = ls
  THEN dict[CHOOSE i \in 1..Len(dict) : dict[i][1] = ls /\ \A j \in 1..(i - 1) : dict[j][1] # ls][2]
  ELSE 99999

\* write name ls at the end of st.out
RECURSIVE PutName(_, _, _, _)
PutName(st, ls, layout, whole) ==
  IF ls = <<>> THEN [st EXCEPT !.out = Append(@, 0)]
  ELSE LET hit == IF layout = "plain" \/ (layout = "tails" /\ ~whole) THEN 99999 ELSE Lookup(st.dict, ls) IN
       IF hit < 16384
       THEN [st EXCEPT !.out = @ \o <<192 + hit \div 256, hit % 256>>]
       ELSE LET here == Len(st.out)
                st2 == [out |-> st.out \o <<Len(ls[1])>> \o ls[1],
                        dict |-> IF here < 16384 THEN Append(st.dict, <<ls, here>>) ELSE st.dict] IN
            PutName(st2, Tail(ls), layout, FALSE)

PutBytes(st, b) == [st EXCEPT !.out = @ \o b]

RECURSIVE OptBytes(_, _)
OptBytes(opts, i) == IF i > Len(opts) THEN <<>> ELSE B16(opts[i].code) \o B16(Len(opts[i].b)) \o opts[i].b \o OptBytes(opts, i + 1)

\* write one record; the data length is patched once the data is written
PutRR(st, r, layout) ==
  LET s1 == PutName(st, r.labels, layout, TRUE)
      s2 == PutBytes(s1, B16(r.type) \o B16(r.class) \o r.ttl \o <<0, 0>>)
      lenpos == Len(s2.out) - 1            \* 1-based index of the first length byte
      s3 == CASE r.d.k = "raw"  -> PutBytes(s2, r.d.b)
              [] r.d.k = "name" -> PutName(s2, r.d.n, layout, TRUE)
              [] r.d.k = "mx"   -> PutName(PutBytes(s2, r.d.pref), r.d.n, layout, TRUE)
              [] r.d.k = "soa"  -> PutBytes(PutName(PutName(s2, r.d.n1, layout, TRUE), r.d.n2, layout, TRUE), r.d.tail)
              [] r.d.k = "opt"  -> PutBytes(s2, OptBytes(r.d.opts, 1))
      rdl == Len(s3.out) - Len(s2.out)
  IN [s3 EXCEPT !.out = [@ EXCEPT ![lenpos] = rdl \div 256, ![lenpos + 1] = rdl % 256]]

RECURSIVE PutRRs(_, _, _, _)
PutRRs(st, rs, i, layout) == IF i > Len(rs) THEN st ELSE PutRRs(PutRR(st, rs[i], layout), rs, i + 1, layout)

Encode(m, layout) ==
  LET h == [out |-> B16(m.id) \o B16(m.word) \o <<0, 1>> \o B16(Len(m.an)) \o B16(Len(m.ns)) \o B16(Len(m.ar)), dict |-> <<>>]
      q == PutBytes(PutName(h, m.q.labels, layout, TRUE), B16(m.q.type) \o B16(m.q.class))
  IN PutRRs(PutRRs(PutRRs(q, m.an, 1, layout), m.ns, 1, layout), m.ar, 1, layout).out

----------------------------------------------------------------------------
(* Round trip: what Decode must give back for an encoded message *)

DataOf(p, r) ==
  LET c == Canon(p, r) IN
  IF r.type \in {TNS, TCNAME, TPTR} THEN [k |-> "name", n |-> c.names[1]]
  ELSE IF r.type = TMX THEN [k |-> "mx", pref |-> SubSeq(c.rd, 1, 2), n |-> c.names[1]]
  ELSE IF r.type = TSOA THEN [k |-> "soa", n1 |-> c.names[1], n2 |-> c.names[2], tail |-> SubSeq(c.rd, Len(c.rd) - 19, Len(c.rd))]
  ELSE IF r.type = TOPT THEN
       LET os == OptExt(p, r.name_end + 10, r.next, <<>>) IN
       [k |-> "opt", opts |-> [i \in 1..Len(os) |-> [code |-> os[i].code, b |-> SubSeq(p, os[i].off + 5, os[i].next)]]]
  ELSE [k |-> "raw", b |-> r.rdata]
AbsRR(p, r) == [labels |-> r.labels, type |-> r.type, class |-> r.class, ttl |-> r.ttl, d |-> DataOf(p, r)]
Abstract(p) ==
  LET m == Decode(p) IN
  [id |-> U16(p, 0), word |-> U16(p, 2), q |-> [labels |-> m.q.labels, type |-> m.q.type, class |-> m.q.class],
   an |-> [i \in 1..Len(m.an) |-> AbsRR(p, m.an[i])],
   ns |-> [i \in 1..Len(m.ns) |-> AbsRR(p, m.ns[i])],
   ar |-> [i \in 1..Len(m.ar) |-> AbsRR(p, m.ar[i])]]
RoundTrip(m, layout) == LET p == Encode(m, layout) IN WellFormed(p) /\ Abstract(p) = m
====
