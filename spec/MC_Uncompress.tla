---- MODULE MC_Uncompress ----
EXTENDS Uncompress
====
