---- MODULE MC_TextGrammar ----
(***************************************************************************)
(* The grammar (TextGrammar!Classify) against a renderer written in TLA+:  *)
(* for every structured record of a small universe (nine types, owner and  *)
(* data names of 0..3 labels with '-' and '_', boundary numbers) and every *)
(* whitespace / keyword-case style,                                        *)
(*   Classify(Render(r, style)) = valid, denoting exactly r,               *)
(* and every single-fault edit of the rendered text (a field dropped, a    *)
(* field added, a number one past its range, a class other than IN, an     *)
(* unknown type keyword, an unbalanced quote, an odd digest) is excluded.  *)
(* Texts are byte sequences; decimal numbers are given with their values.  *)
(***************************************************************************)
EXTENDS TextGrammar, TLC

\* ASCII helpers
Sp == <<32>>  Tab == <<9>>
Glue(parts, sep) == LET RECURSIVE F(_) F(k) == IF k > Len(parts) THEN <<>> ELSE (IF k = 1 THEN <<>> ELSE sep) \o parts[k] \o F(k + 1) IN F(1)
NameTextOf(ls) == IF ls = <<>> THEN <<Dot>> ELSE Glue(ls, <<Dot>>) \o <<Dot>>

LA == <<97>>  LEX == <<101, 120>>  LSRV == <<95, 115, 114, 118>>  LAB == <<97, 45, 98>>  L62 == [k \in 1..62 |-> 108]
OwnerSet == { <<>>, <<LEX>>, <<LA, LEX>>, <<LSRV, LAB, LEX>>, <<L62, LEX>> }
HostSet == { <<LEX>>, <<<<110, 115>>, LEX>>, <<>> }
\* <<decimal text, 4-byte value>>
Ttls == { << <<48>>, <<0, 0, 0, 0>> >>, << <<54, 48>>, <<0, 0, 0, 60>> >>, << <<48, 48, 55>>, <<0, 0, 0, 7>> >>,
          << <<52, 50, 57, 52, 57, 54, 55, 50, 57, 53>>, <<255, 255, 255, 255>> >>, << <<54, 53, 53, 51, 54>>, <<0, 1, 0, 0>> >> }
TypeSet == {TA, TAAAA, TNS, TCNAME, TPTR, TMX, TSOA, TTXT, TDS}
Kw1(t) == CASE t = TA -> KA [] t = TAAAA -> KAAAA [] t = TNS -> KNS [] t = TCNAME -> KCNAME [] t = TPTR -> KPTR
            [] t = TMX -> KMX [] t = TSOA -> KSOA [] t = TTXT -> KTXT [] OTHER -> KDS
Lower1(w) == [k \in 1..Len(w) |-> IF w[k] >= 65 /\ w[k] <= 90 THEN w[k] + 32 ELSE w[k]]
MixedCase(w) == [k \in 1..Len(w) |-> IF k % 2 = 0 /\ w[k] >= 65 /\ w[k] <= 90 THEN w[k] + 32 ELSE w[k]]

VARIABLES ty, own, h1, h2, ttl, style, fin
Init == /\ ty \in TypeSet /\ own \in OwnerSet /\ h1 \in HostSet /\ h2 \in HostSet /\ ttl \in Ttls
        /\ style \in 1..4 /\ fin = 0
        /\ (ty \notin {TNS, TCNAME, TPTR, TMX, TSOA} => h1 = <<LEX>>) /\ (ty # TSOA => h2 = <<LEX>>)

\* data text and the record it denotes
Data == CASE ty = TA -> [t |-> <<49, 57, 50, 46, 48, 46, 50, 46, 50, 53, 53>>, names |-> <<>>, fixed |-> <<192, 0, 2, 255>>, txt |-> <<>>]
          [] ty = TAAAA -> [t |-> <<50, 48, 48, 49, 58, 100, 66, 56, 58, 58, 49>>, names |-> <<>>,
                            fixed |-> <<32, 1, 13, 184, 0, 0, 0, 0, 0, 0, 0, 0, 0, 0, 0, 1>>, txt |-> <<>>]
          [] ty \in {TNS, TCNAME, TPTR} -> [t |-> NameTextOf(h1), names |-> <<h1>>, fixed |-> <<>>, txt |-> <<>>]
          [] ty = TMX -> [t |-> <<54, 53, 53, 51, 53>> \o Sp \o NameTextOf(h1), names |-> <<h1>>, fixed |-> <<255, 255>>, txt |-> <<>>]
          [] ty = TSOA -> [t |-> NameTextOf(h1) \o Sp \o NameTextOf(h2) \o <<32, 40, 49, 32, 50, 32, 51, 32, 52, 32>> \o ttl[1] \o <<41>>,
                           names |-> <<h1, h2>>, fixed |-> <<0, 0, 0, 1, 0, 0, 0, 2, 0, 0, 0, 3, 0, 0, 0, 4>> \o ttl[2], txt |-> <<>>]
          [] ty = TTXT -> [t |-> <<34, 104, 105, 32, 92, 48, 54, 53, 92, 50, 53, 53, 34>>, names |-> <<>>, fixed |-> <<>>, txt |-> <<104, 105, 32, 65, 255>>]
          [] OTHER -> [t |-> <<54, 53, 53, 51, 53, 32, 50, 53, 53, 32, 48, 32, 97, 66, 48, 49>>, names |-> <<>>, fixed |-> <<255, 255, 255, 0, 171, 1>>, txt |-> <<>>]
R == [n |-> own, t |-> ty, ttl |-> ttl[2], names |-> Data.names, fixed |-> Data.fixed, txt |-> Data.txt]
W == CASE style = 1 -> Sp [] style = 2 -> Tab [] style = 3 -> Sp \o Tab \o Sp [] OTHER -> Sp
Lead == IF style = 3 THEN Tab ELSE <<>>
Trail == IF style \in {2, 3} THEN Sp \o Tab ELSE <<>>
KwS(w) == CASE style = 1 -> w [] style = 2 -> Lower1(w) [] OTHER -> MixedCase(w)
Fields5 == <<NameTextOf(own), ttl[1], KwS(KIN), KwS(Kw1(ty)), Data.t>>
Rendered == Lead \o Glue(Fields5, W) \o Trail

Verdict(t) == Classify(t).k
Faults ==
  /\ Verdict(Lead \o Glue(<<Fields5[1], Fields5[3], Fields5[4], Fields5[5]>>, W)) = "err"             \* TTL missing
  /\ Verdict(Lead \o Glue(<<Fields5[1], Fields5[2], Fields5[4], Fields5[5]>>, W)) = "err"             \* class missing
  /\ Verdict(Lead \o Glue(<<Fields5[1], Fields5[2], Fields5[3], Fields5[4]>>, W)) = "err"             \* data missing
  /\ Verdict(Rendered \o Sp \o <<120>>) = "err"                                                           \* surplus field
  /\ Verdict(Lead \o Glue(<<Fields5[1], <<52, 50, 57, 52, 57, 54, 55, 50, 57, 54>>, Fields5[3], Fields5[4], Fields5[5]>>, W)) = "err"   \* TTL 2^32
  /\ Verdict(Lead \o Glue(<<Fields5[1], Fields5[2], <<67, 72>>, Fields5[4], Fields5[5]>>, W)) = "err"  \* class CH
  /\ Verdict(Lead \o Glue(<<Fields5[1], Fields5[2], Fields5[3], Fields5[4] \o <<88>>, Fields5[5]>>, W)) = "err"   \* unknown type
  /\ (ty = TTXT => Verdict(Lead \o Glue(<<Fields5[1], Fields5[2], Fields5[3], Fields5[4], SubSeq(Data.t, 1, Len(Data.t) - 1)>>, W)) = "err")   \* unbalanced quote
  /\ (ty = TDS => Verdict(Rendered \o <<48>>) = "err")                                                     \* odd digest (no trailing space in this style) or surplus
  /\ (ty = TA => Verdict(Lead \o Glue(<<Fields5[1], Fields5[2], Fields5[3], Fields5[4], <<49, 46, 50, 46, 51, 46, 50, 53, 54>>>>, W)) = "err")   \* octet 256
  /\ (ty = TMX => Verdict(Lead \o Glue(<<Fields5[1], Fields5[2], Fields5[3], Fields5[4], <<54, 53, 53, 51, 54>> \o Sp \o NameTextOf(h1)>>, W)) = "err")   \* preference 65536

Holds == LET c == Classify(Rendered) IN c.k = "ok" /\ c.rec = R /\ Faults
Next == fin = 0 /\ fin' = 1 /\ UNCHANGED <<ty, own, h1, h2, ttl, style>>
        /\ Assert(Holds, <<"the grammar and the renderer disagree on", ty, own, h1, h2, ttl, style, Classify(Rendered)>>)
====
