CONSTANTS
 Labels = {1, 2}
 MaxNames = 4
 MaxDepth = 3
 MaxSuffixes = 3
 MaxSuffixLen = 7
 MaxRefs = 2
 Gap = 4
 BugInputOffsets = FALSE
 TrackDepth = FALSE
INIT Init
NEXT Next
INVARIANTS DictSound OutputFaithful NotLonger ChainsAdmissible
CHECK_DEADLOCK FALSE
