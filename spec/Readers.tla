---- MODULE Readers ----
(***************************************************************************)
(* The section cursor (src/response_iterator.rs:90-145): start offset plus *)
(* a counter of records left, advanced by next_including_opt; the plain    *)
(* next() additionally steps over the OPT pseudo-record                    *)
(* (maybe_skip_opt_section).  A section is abstracted to the sequence of   *)
(* its record kinds; positions are record indices.                         *)
(*                                                                         *)
(* Property level (C03): the skipping reader yields exactly the non-OPT    *)
(* records in wire order, the including reader yields all of them, and no  *)
(* read ever happens at a position outside the section.                    *)
(* FixSkip = FALSE reproduces the defect of the pinned tree (F01): the     *)
(* counter is not decremented when OPT is stepped over.                    *)
(***************************************************************************)
EXTENDS Naturals, Sequences, FiniteSets, TLC

CONSTANTS MaxN, FixSkip

Kinds == {"RR", "OPT"}
Sections == UNION { [1..n -> Kinds] : n \in 0..MaxN }
OneOpt(sq) == Cardinality({i \in DOMAIN sq : sq[i] = "OPT"}) <= 1

VARIABLES sec, incl, pos, left, started, finished, yielded, oob
vars == <<sec, incl, pos, left, started, finished, yielded, oob>>

Init == /\ sec \in {x \in Sections : OneOpt(x)} /\ incl \in BOOLEAN
        /\ pos = 0 /\ left = 0 /\ started = FALSE /\ finished = FALSE /\ yielded = <<>> /\ oob = FALSE

\* next_including_opt: [ok, pos, left]
Advance ==
  IF ~started /\ Len(sec) = 0 THEN [ok |-> FALSE, pos |-> pos, left |-> left]
  ELSE LET l0 == IF ~started THEN Len(sec) ELSE left
           p0 == IF ~started THEN 0 ELSE pos IN
       IF l0 = 0 THEN [ok |-> FALSE, pos |-> pos, left |-> left]
       ELSE [ok |-> TRUE, pos |-> p0 + 1, left |-> l0 - 1]

Finish == finished' = TRUE /\ UNCHANGED <<sec, incl, pos, left, started, yielded, oob>>
Yield(p, lf) == /\ pos' = p /\ left' = lf /\ started' = TRUE
                /\ oob' = (oob \/ p > Len(sec))
                /\ yielded' = Append(yielded, p) /\ UNCHANGED <<sec, incl, finished>>

NextIncl == /\ incl /\ ~finished
            /\ LET x == Advance IN IF ~x.ok THEN Finish ELSE Yield(x.pos, x.left)

NextSkip == /\ ~incl /\ ~finished
            /\ LET x == Advance IN
               IF ~x.ok THEN Finish
               ELSE IF x.pos <= Len(sec) /\ sec[x.pos] = "OPT"
                    THEN IF x.left = 0 THEN Finish
                         ELSE Yield(x.pos + 1, IF FixSkip THEN x.left - 1 ELSE x.left)
                    ELSE Yield(x.pos, x.left)

Next == NextIncl \/ NextSkip
Spec == Init /\ [][Next]_vars /\ WF_vars(Next)

InBounds == ~oob /\ pos <= Len(sec)
LeftCounts == started => left = Len(sec) - pos
Expected == IF incl THEN [i \in 1..Len(sec) |-> i]
            ELSE SelectSeq([i \in 1..Len(sec) |-> i], LAMBDA i : sec[i] # "OPT")
Exact == finished => yielded = Expected
Prefix == \A k \in 1..Len(yielded) : k <= Len(Expected) /\ yielded[k] = Expected[k]
Terminates == <>finished
====
