CONSTANTS
  MaxLabel = 63
  MaxName = 255
  MaxRefs = 16
  Count = 2000
  Stride = 41868361
  Offset = 1
INIT Init
NEXT Next
CHECK_DEADLOCK FALSE
