CONSTANTS
  MaxLabel = 2
  MaxName = 6
  MaxRefs = 2
  Mode = "bytes"
  Alphabet = {0, 1, 2, 12, 97, 192}
  MaxBody = 4
  Bug = "label-guard"
SPECIFICATION MCSpec
INVARIANTS NoBadRead CursorInBounds EdnsWindow Agree StepBound
PROPERTY Terminates
CHECK_DEADLOCK FALSE
