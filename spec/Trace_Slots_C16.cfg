INIT Init
NEXT NextC16
CHECK_DEADLOCK FALSE
