CONSTANTS
  Ops = {"read_question", "recompute", "clear_qr", "insert_an", "insert_q", "rename", "q_setA", "q_setB", "q_delete", "an_setA", "an_setLong", "an_delete", "an_uncompress", "opt_delete", "ar1_setB", "opt_set_ttl"}
  MaxLen = 4
INIT Init
NEXT Next
CHECK_DEADLOCK FALSE
