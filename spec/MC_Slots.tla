---- MODULE MC_Slots ----
EXTENDS Slots
Prog4 == <<"F", "R", "F", "R">>
Prog3 == <<"F", "R", "R">>
====
