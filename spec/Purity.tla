---- MODULE Purity ----
(***************************************************************************)
(* C17: results depend only on the arguments.                              *)
(* A history is a sequence of calls f(x) -> y executed back to back on one *)
(* thread, or the same calls executed concurrently on several threads.     *)
(* The machine keeps a memo of the first result seen for every (f, x) and  *)
(* every later result for the same (f, x) must be byte-identical, whatever *)
(* was processed in between or at the same time.  The only exception is    *)
(* the transaction id of a freshly synthesised empty packet (bytes 1..2),  *)
(* the rest of which is fixed.                                             *)
(* The trace is consumed event by event (stateful validation): l is the    *)
(* position in the trace.                                                  *)
(***************************************************************************)
EXTENDS Naturals, Sequences, FiniteSets, TLC, Json, IOUtils

Rec == ndJsonDeserialize(IOEnv.TRACE)
VARIABLES l, memo
Init == l = 1 /\ memo = <<>>          \* memo: sequence of [key, val]

Has(m, key) == \E i \in 1..Len(m) : m[i].key = key
Lookup(m, key) == m[CHOOSE i \in 1..Len(m) : m[i].key = key].val
Report(why) == PrintT("@@VIOLATION-C17|" \o ToString(l) \o "|" \o why)

\* normal form of a result: the id of an empty packet is not compared
Norm(c) == IF c.f = "empty" /\ c.y.k = "ok" THEN [c.y EXCEPT !.b = <<0, 0>> \o SubSeq(c.y.b, 3, Len(c.y.b))] ELSE c.y

RECURSIVE Absorb(_, _, _)
Absorb(calls, i, m) ==
  IF i > Len(calls) THEN [memo |-> m, why |-> ""]
  ELSE LET c == calls[i]  key == <<c.f, c.x>>  v == Norm(c) IN
       IF c.y.k = "panic" THEN [memo |-> m, why |-> c.f \o " panicked"]
       ELSE IF ~Has(m, key) THEN Absorb(calls, i + 1, Append(m, [key |-> key, val |-> v]))
       ELSE IF Lookup(m, key) # v THEN [memo |-> m, why |-> c.f \o " on input " \o ToString(c.x) \o " returned something else than the first time it was called"]
       ELSE Absorb(calls, i + 1, m)

Flat(e) == IF e.threads = 1 THEN e.calls
           ELSE LET RECURSIVE F(_) F(t) == IF t > Len(e.per_thread) THEN <<>> ELSE e.per_thread[t] \o F(t + 1) IN F(1)
Next == /\ l <= Len(Rec)
        /\ LET e == Rec[l] IN
           IF e.k \in {"hang", "abort"} THEN Report("the library " \o e.k \o "s") /\ memo' = memo
           ELSE LET r == Absorb(Flat(e), 1, memo) IN
                /\ memo' = r.memo
                /\ (IF r.why = "" THEN TRUE ELSE Report(r.why))
        /\ l' = l + 1
        /\ (l' > Len(Rec) => PrintT("@@END|" \o ToString(Len(Rec)) \o "|" \o ToString(Len(memo'))))
====
