CONSTANTS
  MaxLabel = 63
  MaxName = 255
  MaxRefs = 16
  Count = 1
  Stride = 41868361
  Offset = 1
  NS1 = 150
  MaxOps = 4
  MaxSuffixes = 32
  MaxSuffixLen = 127
  PtrLimit = 16384
  ImplBug = "none"
  ObjDefect = "none"
SPECIFICATION MCSpec
INVARIANTS Acceptable Coherent FlagSound CursorSound CacheSound Effect
CHECK_DEADLOCK FALSE
