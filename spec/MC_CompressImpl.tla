---- MODULE MC_CompressImpl ----
(***************************************************************************)
(* The transcribed compressor satisfies C06's post-condition on            *)
(*  - the Gen_S1 universe in the plain layout (every record type, OPT at   *)
(*    every position, shared suffixes, mixed case, names that differ in    *)
(*    bit 5 of a non-letter),                                              *)
(*  - packets with many distinct names (more than 32 suffixes: wrap-around *)
(*    and the pinned first slot) followed by names that reuse early and    *)
(*    late suffixes,                                                       *)
(*  - nested suffixes to depth 20 (indirection depth tracking).            *)
(* Decompression of the output (re-encoding its abstract message without   *)
(* pointers) gives back the input up to case.                              *)
(***************************************************************************)
EXTENDS Gen_S1, CompressImpl

CONSTANTS NS1, NMany, NNest

Lab2(x) == <<97 + (x % 26), 97 + ((x \div 26) % 26)>>
ARec(owner, x) == [labels |-> owner, type |-> TA, class |-> 1, ttl |-> <<0, 0, 0, x % 256>>, d |-> [k |-> "raw", b |-> <<10, 0, 0, x % 256>>]]
NSRec(owner, tgt, x) == [labels |-> owner, type |-> TNS, class |-> 1, ttl |-> <<0, 0, 0, x % 256>>, d |-> [k |-> "name", n |-> tgt]]
Base(an) == [id |-> 7, word |-> 33152, q |-> [labels |-> <<Lab2(0), <<116, 108, 100>>>>, type |-> 1, class |-> 1], an |-> an, ns |-> <<>>, ar |-> <<>>]
\* n distinct owners  <i>.tld, then records that reuse suffixes 1, 2, n-1, n \div 2
Many(n) == LET own(x) == <<Lab2(x), <<116, 108, 100>>>> IN
  Base([x \in 1..(n + 4) |-> IF x <= n THEN ARec(own(x), x)
                             ELSE LET j == CASE x = n + 1 -> 1 [] x = n + 2 -> 2 [] x = n + 3 -> n - 1 [] OTHER -> n \div 2 IN
                                  NSRec(own(j), <<<<120>>>> \o own(j), x)])
\* name k = label_k . name_(k-1)
RECURSIVE NestName(_)
NestName(k) == IF k = 0 THEN <<<<110>>>> ELSE <<Lab2(k)>> \o NestName(k - 1)
Nested(d) == Base([x \in 1..(2 * d) |-> IF x % 2 = 1 THEN ARec(NestName((x + 1) \div 2), x) ELSE NSRec(NestName(x \div 2), NestName(x \div 2), x)])

VARIABLES fam, kk, fin
MCInit == /\ fin = 0 /\ i = 0 /\ done = 0
          /\ \/ fam = "s1" /\ kk \in 1..NS1
             \/ fam = "many" /\ kk \in 28..NMany
             \/ fam = "nest" /\ kk \in 1..NNest
Packet == CASE fam = "s1" -> Encode(Msg(Index(kk)), "plain")
            [] fam = "many" -> Encode(Many(kk), "plain")
            [] OTHER -> Encode(Nested(kk), "plain")
Holds == LET p == Packet  o == CompressOut(p) IN
         /\ WellFormed(p) /\ PointerFreePkt(p)
         /\ CompressPost(p, o)
         /\ LET back == Encode(Abstract(o), "plain") IN Len(back) = Len(p) /\ SameUpToCase(p, back)
MCNext == fin = 0 /\ fin' = 1 /\ UNCHANGED <<fam, kk, i, done>>
          /\ Assert(Holds, <<"the transcribed compressor violates C06 on", fam, kk>>)
====
