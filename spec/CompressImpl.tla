---- MODULE CompressImpl ----
(***************************************************************************)
(* Byte-level transcription of Compress::compress (src/compress.rs):       *)
(* the suffix dictionary (32 slots, first slot pinned after wrap-around,   *)
(* suffixes of 3..127 bytes, output offsets below 16384, case-insensitive  *)
(* comparison, indirection depth per entry), name emission (literal labels *)
(* until a remembered suffix is found, then a 2-byte pointer), per-type    *)
(* data handling with RDLENGTH rewrite, and the section walk.              *)
(*                                                                         *)
(* It is the implementation-shaped counterpart of the post-condition of    *)
(* C06 (Trace_Transform!C06Why): MC_CompressImpl checks that the algorithm *)
(* as transcribed satisfies the post-condition on every enumerated packet, *)
(* and Trace_CompressImpl compares its output with the real code's output  *)
(* byte for byte (a NOTE when they differ: another compression choice is   *)
(* not a violation of C06).                                                *)
(* Input: an accepted pointer-free packet.                                 *)
(***************************************************************************)
EXTENDS Message

CONSTANTS MaxSuffixes,     \* 32
          MaxSuffixLen,    \* 127
          PtrLimit,        \* 16384
          ImplBug          \* "none"; "input-offsets" (F02) and "no-depth" (F23) are negative controls

SeqEqIC(a, b) == Len(a) = Len(b) /\ \A i \in 1..Len(a) : Lower(a[i]) = Lower(b[i])

EmptyDict == [count |-> 0, index |-> 0, nameId |-> 0, e |-> <<>>]

\* first candidate (slot order) that matches; 0 if none
FindSlot(d, suf) ==
  LET ok(i) == d.e[i].len <= Len(suf) /\ (ImplBug = "no-depth" \/ d.e[i].depth < MaxRefs) /\ SeqEqIC(suf, d.e[i].suf) IN
  IF \E i \in 1..d.count : ok(i) THEN CHOOSE i \in 1..d.count : ok(i) /\ \A j \in 1..(i - 1) : ~ok(j) ELSE 0

\* SuffixDict::insert: [hit (0 = none), off, depth, d]
Insert(d, suf, off) ==
  IF off >= PtrLimit \/ Len(suf) <= 2 \/ Len(suf) > MaxSuffixLen THEN [hit |-> 0, off |-> 0, depth |-> 0, d |-> d]
  ELSE LET k == FindSlot(d, suf) IN
       IF k # 0 THEN [hit |-> k, off |-> d.e[k].off, depth |-> d.e[k].depth, d |-> d]
       ELSE LET ent == [off |-> off, len |-> Len(suf), depth |-> 0, nameId |-> d.nameId, suf |-> suf]
                slot == d.index + 1                                   \* 1-based
                e2 == IF slot <= Len(d.e) THEN [d.e EXCEPT ![slot] = ent] ELSE Append(d.e, ent)
                idx2 == d.index + 1
                cnt2 == IF idx2 > d.count THEN idx2 ELSE d.count
            IN [hit |-> 0, off |-> 0, depth |-> 0,
                d |-> [d EXCEPT !.e = e2, !.count = cnt2, !.index = IF idx2 = MaxSuffixes THEN 1 ELSE idx2]]

EndName(d, depth) ==
  [d EXCEPT !.e = [i \in 1..Len(d.e) |-> IF i <= d.count /\ d.e[i].nameId = d.nameId THEN [d.e[i] EXCEPT !.depth = depth] ELSE d.e[i]],
            !.nameId = @ + 1]

\* copy_compressed_name: st = [out, d]; the pointer-free name occupies p[off+1 .. fin]
RECURSIVE EmitName(_, _, _, _)
EmitName(st, p, off, fin) ==
  LET r == Insert(st.d, SubSeq(p, off + 1, fin), IF ImplBug = "input-offsets" THEN off ELSE Len(st.out)) IN
  IF r.hit # 0
  THEN [out |-> st.out \o <<192 + r.off \div 256, r.off % 256>>, d |-> EndName(r.d, r.depth + 1)]
  ELSE LET ll == p[off + 1]
           st2 == [out |-> st.out \o SubSeq(p, off + 1, off + 1 + ll), d |-> r.d] IN
       IF ll = 0 THEN [st2 EXCEPT !.d = EndName(r.d, 0)] ELSE EmitName(st2, p, off + 1 + ll, fin)

NameEnd(p, off) == UName(p, off).end
CzName(st, p, off) == EmitName(st, p, off, NameEnd(p, off))
CzPut(st, b) == [st EXCEPT !.out = @ \o b]
Patch16(out, pos1, v) == [out EXCEPT ![pos1] = v \div 256, ![pos1 + 1] = v % 256]     \* pos1: 1-based index

\* one record starting at offset r.off (decoded extents from Message!DecRR)
CzRecord(st, p, r) ==
  LET s1 == CzName(st, p, r.off)
      fx == r.name_end                                        \* offset of the 10-byte fixed part
      lenpos == Len(s1.out) + 9                               \* 1-based index of RDLENGTH in the output
      s2 == CzPut(s1, SubSeq(p, fx + 1, fx + 10))
      d0 == fx + 10
      s3 == IF r.type \in {TNS, TCNAME, TPTR} THEN CzName(s2, p, d0)
            ELSE IF r.type = TMX THEN CzName(CzPut(s2, SubSeq(p, d0 + 1, d0 + 2)), p, d0 + 2)
            ELSE IF r.type = TSOA THEN
                 LET a == CzName(s2, p, d0)  n1e == NameEnd(p, d0)
                     b == CzName(a, p, n1e)  n2e == NameEnd(p, n1e) IN
                 CzPut(b, SubSeq(p, n2e + 1, n2e + 20))
            ELSE CzPut(s2, SubSeq(p, d0 + 1, d0 + r.rdlen))
      rdl == Len(s3.out) - Len(s2.out)
  IN IF r.type \in {TNS, TCNAME, TPTR, TMX, TSOA} THEN [s3 EXCEPT !.out = Patch16(@, lenpos, rdl)] ELSE s3

RECURSIVE CzRecords(_, _, _, _)
CzRecords(st, p, rs, i) == IF i > Len(rs) THEN st ELSE CzRecords(CzRecord(st, p, rs[i]), p, rs, i + 1)

\* the post-condition of C06 on (input, output)
CompressPost(p, o) ==
  /\ WellFormed(o) /\ Len(o) <= Len(p) /\ SameUpToCase(p, o)
  /\ Decode(p).q.labels = Decode(o).q.labels

CompressOut(p) ==
  LET m == Decode(p)
      q == CzPut(CzName([out |-> SubSeq(p, 1, 12), d |-> EmptyDict], p, 12), SubSeq(p, m.q.name_end + 1, m.q.name_end + 4))
  IN CzRecords(q, p, AllRecs(m), 1).out
====
