CONSTANTS
  MaxLabel = 2
  MaxName = 6
  MaxRefs = 1
  Mode = "names"
  Alphabet = {0, 1, 3, 97, 192}
  MaxBody = 7
  Bug = "no-refs-dec"
SPECIFICATION NameSpec
INVARIANTS NoBadRead CursorInBounds NameAgree NameStepBound
PROPERTY Terminates
CHECK_DEADLOCK FALSE
