---- MODULE ObjectImpl ----
(***************************************************************************)
(* The mutable packet object, implementation-shaped, byte for byte.        *)
(*                                                                         *)
(* MutateImpl transcribes the moves on pointer-free bytes; this module     *)
(* adds what surrounds them in the code:                                   *)
(*   - the byte-exact output of Compress::uncompress (re-emission record   *)
(*     by record: owner expanded, fixed part copied, RDLENGTH rewritten,   *)
(*     NS / CNAME / PTR / MX / SOA data names expanded, other data copied);*)
(*   - "decompress first if the object says the bytes may hold pointers",  *)
(*     with the translation of the cursor to the same record of the output *)
(*     (rr_iterator.rs: set_raw_name, delete, uncompress;                  *)
(*      parsed_packet.rs: insert_rr);                                      *)
(*   - the validity tests in the order the code makes them (name policy,   *)
(*     OPT keeps the root name, void record), the fixed-offset writes of   *)
(*     set_rr_ttl / set_rr_ip, the size limit of insert_rr.                *)
(*                                                                         *)
(* Sub(st, sec, u) predicts the complete state after one sub-step of a     *)
(* cursor script: [ok, p (bytes), v (offsets, option count, pointer flag), *)
(* c (cursor)].  Trace_ObjectImpl compares every prediction with what the  *)
(* real object recorded.  Differences are NOTES, not violations: the       *)
(* properties speak about decoded messages, and C08 / C09 / C10 are        *)
(* decided by History on the same events.                                  *)
(***************************************************************************)
EXTENDS MutateImpl

CONSTANTS MaxSuffixes, MaxSuffixLen, PtrLimit, ImplBug      \* of the compressor's dictionary, used by the renamer
RF == INSTANCE RenameFull

CONSTANT ObjDefect     \* "none"; negative controls, each a defect the pinned tree had or a seeded change made:
                       \* "stale-rdlength"   RDLENGTH copied, not rewritten, by the re-emission
                       \* "stale-cursor"     cursor keeps its offsets of the compressed bytes (F20)
                       \* "edns-not-shifted" offset_edns not moved when a record in front of OPT is resized (F19)
                       \* "opt-summary-kept" deleting the OPT record leaves the EDNS summary (F22)
                       \* "opt-insert-unsynced" an inserted OPT record does not bring its summary (F29)
                       \* "rename-clears-flag" a rename leaves / sets "no pointer" on bytes it has just compressed (C09-m1)
                       \* "cache-kept"       the cached question survives a rename / a change of the question (F16)

\* ---- Compress::uncompress, byte-exact, on structurally acceptable bytes ----
RecOut(p, r) ==
  LET rd == Canon(p, r).rd IN
  RawName(r.labels) \o SubSeq(p, r.name_end + 1, r.name_end + 8)
    \o (IF ObjDefect = "stale-rdlength" THEN SubSeq(p, r.name_end + 9, r.name_end + 10) ELSE <<Len(rd) \div 256, Len(rd) % 256>>) \o rd
RECURSIVE RecsOut(_, _, _, _)
RecsOut(p, rs, k, acc) == IF k > Len(rs) THEN acc ELSE RecsOut(p, rs, k + 1, acc \o RecOut(p, rs[k]))
QOut(p, m) == IF Len(m.q) = 0 THEN <<>> ELSE RawName(m.q[1].labels) \o SubSeq(p, m.q[1].name_end + 1, m.q[1].name_end + 4)
UncompressOut(p) == LET m == DecodeT(p) IN RecsOut(p, AllRecs(m), 1, SubSeq(p, 1, 12) \o QOut(p, m))

\* offsets at which the records (question included) start
Starts(p) == LET m == DecodeT(p)  rs == AllRecs(m) IN
  (IF Len(m.q) = 0 THEN <<>> ELSE <<12>>) \o [k \in 1..Len(rs) |-> rs[k].off]

StartIdx(sq, x) == IF \E k \in 1..Len(sq) : sq[k] = x THEN CHOOSE k \in 1..Len(sq) : sq[k] = x ELSE 0

\* the object's view after recompute_sections() / recompute() on pointer-free bytes
ViewMC(p, mc) == [oq |-> ViewOf(p).oq, oan |-> ViewOf(p).oan, ons |-> ViewOf(p).ons, oar |-> ViewOf(p).oar,
                  oedns |-> ViewOf(p).oedns, ecount |-> ViewOf(p).ecount, mc |-> mc]

\* "decompress first": new bytes, recomputed view, cursor on the same record
Decompressed(st, sec) ==
  LET q == UncompressOut(st.p)
      k == StartIdx(Starts(st.p), st.c.off)
      off2 == Starts(q)[k] IN
  [p |-> q, v |-> ViewMC(q, FALSE), c |-> IF ObjDefect = "stale-cursor" THEN st.c ELSE CursorAt(q, sec, off2)]
Ready(st, sec) == IF st.v.mc THEN Decompressed(st, sec) ELSE st

Fails(st) == [ok |-> FALSE, p |-> st.p, v |-> st.v, c |-> st.c]
Okay(st) == [ok |-> TRUE, p |-> st.p, v |-> st.v, c |-> st.c]
NoMC(st) == [st EXCEPT !.v.mc = FALSE]

GoodNewName(arg) == LET n == UName(arg, 0) IN n.ok /\ CName(SubSeq(arg, 1, n.end), 0).ok
IsOptAt(st, sec) == sec = "AR" /\ U16(st.p, st.c.ne) = TOPT

SubSetRawName(st, sec, arg) ==
  IF ~GoodNewName(arg) THEN Fails(st)
  ELSE LET nm == SubSeq(arg, 1, UName(arg, 0).end) IN
       IF ~st.c.tomb /\ IsOptAt(st, sec) /\ Len(nm) # 1 THEN Fails(st)
       ELSE IF st.c.tomb THEN Fails(st)
       ELSE LET r == Ready(st, sec)  s2 == SetRawName([p |-> r.p, v |-> r.v, c |-> r.c], nm) IN
            Okay(NoMC(IF ObjDefect = "edns-not-shifted" THEN [s2 EXCEPT !.v.oedns = r.v.oedns] ELSE s2))

SubDelete(st, sec) ==
  IF st.c.tomb THEN Fails(st)
  ELSE LET r == Ready(st, sec)  s2 == Delete([p |-> r.p, v |-> r.v, c |-> r.c]) IN
       Okay(NoMC(IF ObjDefect = "opt-summary-kept" /\ IsOptAt(r, sec) THEN [s2 EXCEPT !.v.oedns = r.v.oedns, !.v.ecount = r.v.ecount] ELSE s2))

SubUncompress(st, sec) ==
  IF ~st.v.mc THEN Okay(st)
  ELSE IF st.c.tomb THEN Fails(st)
  ELSE Okay(Decompressed(st, sec))

\* fixed-offset writes: no decompression, no bookkeeping
Overwrite(p, at, b) == [j \in 1..Len(p) |-> IF j > at /\ j <= at + Len(b) THEN b[j - at] ELSE p[j]]
SubSetTtl(st, arg) == Okay([st EXCEPT !.p = Overwrite(@, st.c.ne + 4, arg)])
SubSetIp(st, arg) ==
  LET t == U16(st.p, st.c.ne) IN
  IF (t = TA /\ Len(arg) = 4) \/ (t = TAAAA /\ Len(arg) = 16) THEN Okay([st EXCEPT !.p = Overwrite(@, st.c.ne + 10, arg)])
  ELSE Fails(st)

\* ---- next() / next_including_opt(): advance, or restart from the section's offset after a deletion ----
\* (question_iterator.rs, response_iterator.rs).  The records-left counter of a live cursor is the
\* number of records of its section behind it; a tombstone re-reads the header count.
CursorAtC(p, sec, off) ==
  LET ne == CName(p, off).end IN
  [off |-> off, ne |-> ne, nx |-> IF sec = "Q" THEN ne + 4 ELSE ne + 10 + U16(p, ne + 8), tomb |-> FALSE]
SecOff(v, sec) == CASE sec = "Q" -> v.oq [] sec = "AN" -> v.oan [] sec = "NS" -> v.ons [] OTHER -> v.oar
SubNext(st, sec, incl) ==
  LET rs == SecOf(DecodeT(st.p), sec)
      cnt == U16(st.p, CountOff(sec))
      k == StartIdx([j \in 1..Len(rs) |-> rs[j].off], st.c.off)
      left0 == IF st.c.tomb THEN cnt ELSE Len(rs) - k
      from == IF st.c.tomb THEN SecOff(st.v, sec) ELSE st.c.nx
      end == [ok |-> FALSE, p |-> st.p, v |-> st.v, c |-> st.c]
  IN IF left0 = 0 THEN end
     ELSE LET c1 == CursorAtC(st.p, sec, from) IN
          IF sec = "AR" /\ ~incl /\ U16(st.p, c1.ne) = TOPT
          THEN (IF left0 = 1 THEN end ELSE [ok |-> TRUE, p |-> st.p, v |-> st.v, c |-> CursorAtC(st.p, sec, c1.nx)])
          ELSE [ok |-> TRUE, p |-> st.p, v |-> st.v, c |-> c1]

\* ---- readers of the EDNS options (edns_iterator.rs): the cursor is on an option, not on a record ----
OptionAt(p, off) == [off |-> off, ne |-> off, nx |-> off + 4 + U16(p, off + 2), tomb |-> FALSE]
\* options behind the cursor: the data of the OPT record ends RDLENGTH bytes behind offset_edns
OptDataEnd(p, v) == v.oedns + U16(p, v.oedns - 2)
SubNextE(st) ==
  LET end == [ok |-> FALSE, p |-> st.p, v |-> st.v, c |-> st.c] IN
  IF st.c.tomb THEN (IF st.v.ecount = 0 THEN end ELSE [ok |-> TRUE, p |-> st.p, v |-> st.v, c |-> OptionAt(st.p, st.v.oedns)])
  ELSE IF st.c.nx >= OptDataEnd(st.p, st.v) THEN end
  ELSE [ok |-> TRUE, p |-> st.p, v |-> st.v, c |-> OptionAt(st.p, st.c.nx)]
\* in-place decompression through an option cursor: ParsedPacket::recompute(), cursor moved with offset_edns
SubUncompressE(st) ==
  IF ~st.v.mc THEN Okay(st)
  ELSE LET q == UncompressOut(st.p)  v2 == ViewMC(q, FALSE) IN
       Okay([p |-> q, v |-> v2, c |-> IF st.c.tomb THEN st.c ELSE OptionAt(q, st.c.off - st.v.oedns + v2.oedns)])

\* ---- the cached question: filled by the question getters, reset by whatever can change the question ----
\* (parsed_packet.rs: question_raw0 fills it; rr_iterator.rs set_raw_name / delete, parsed_packet.rs insert into the
\* question section, rename, recompute of a possibly compressed packet, and every header setter and count update
\* (a name may reach into the header) reset it).  op: "set", "del", "unc",
\* "recompute", "ren", "insq", "readq", anything else leaves it alone; `filled`: whether it held a value before.
CacheFilledAfter(op, ok, filled, mcBefore, hasQuestion) ==
  IF ~ok THEN filled
  ELSE CASE op \in {"set", "del", "insq", "ins"} -> FALSE      \* any change of a record count resets it too (F31)
         [] op = "ren" -> IF ObjDefect = "cache-kept" THEN filled ELSE FALSE
         [] op \in {"unc", "recompute"} -> IF mcBefore THEN FALSE ELSE filled
         [] op = "readq" -> hasQuestion
         [] OTHER -> filled
\* what a filled cache must hold: the question of the bytes, uncompressed
CacheOf(p) == LET m == DecodeT(p) IN [raw0 |-> RawName(m.q[1].labels), type |-> m.q[1].type, class |-> m.q[1].class]

\* ---- insert_rr on the object (no cursor) ----
NamesRaw(ns) == LET RECURSIVE F(_) F(k) == IF k > Len(ns) THEN <<>> ELSE RawName(ns[k]) \o F(k + 1) IN F(1)
RRWire(r) ==
  LET rd == IF r.t = TMX THEN r.fixed \o NamesRaw(r.names)
            ELSE IF r.t = TSOA THEN NamesRaw(r.names) \o r.fixed
            ELSE IF r.names # <<>> THEN NamesRaw(r.names)
            ELSE r.fixed IN
  RawName(r.n) \o <<r.t \div 256, r.t % 256, r.c \div 256, r.c % 256>> \o r.ttl \o <<Len(rd) \div 256, Len(rd) % 256>> \o rd

ObjInsert(p, mc, sec, r) ==
  LET q == IF mc THEN UncompressOut(p) ELSE p
      st == [p |-> q, v |-> ViewOf(q), c |-> [off |-> 0, ne |-> 0, nx |-> 0, tomb |-> TRUE]]
      rr == RRWire(r) IN
  IF Len(q) + Len(rr) > 8192 THEN [ok |-> FALSE, p |-> q, v |-> ViewOf(q)]
  ELSE IF r.t = TOPT /\ (sec # "AR" \/ st.v.oedns # 0 \/ r.n # <<>> \/ ~OptionsOK(r.fixed, 0)) THEN [ok |-> FALSE, p |-> q, v |-> ViewOf(q)]
  ELSE IF U16(q, CountOff(sec)) >= 65535 THEN [ok |-> FALSE, p |-> q, v |-> ViewOf(q)]
  ELSE LET s2 == Insert(st, sec, rr) IN
       \* an OPT record brings the EDNS summary with it: its options start behind the root owner and the fixed part
       [ok |-> TRUE, p |-> s2.p,
        v |-> IF r.t = TOPT /\ ObjDefect # "opt-insert-unsynced" THEN [s2.v EXCEPT !.oedns = Len(q) + 11, !.ecount = OptionCount(r.fixed, 0)] ELSE s2.v]

\* ---- ParsedPacket::rename_with_raw_names: the renamer's output replaces the bytes and is parsed afresh ----
\* (needs exactly one question: the renamer parses nothing but walks the sections of the object)
ObjRename(p, tgt, src, sfx) ==
  LET r == RF!RenameOut(p, tgt, src, sfx) IN
  IF r.k # "ok" THEN [ok |-> FALSE, p |-> p, v |-> ViewMC(p, TRUE)]
  ELSE [ok |-> TRUE, p |-> r.b, v |-> ViewMC(r.b, ObjDefect # "rename-clears-flag")]

\* RR::new_question(name, AAAA, IN) inserted into the question section
ObjInsertQ(p, mc, labels) ==
  LET q == IF mc THEN UncompressOut(p) ELSE p
      st == [p |-> q, v |-> ViewOf(q), c |-> [off |-> 0, ne |-> 0, nx |-> 0, tomb |-> TRUE]]
      rr == RawName(labels) \o <<0, 28, 0, 1>> IN
  IF Len(q) + Len(rr) > 8192 \/ U16(q, 4) >= 1 THEN [ok |-> FALSE, p |-> q, v |-> ViewOf(q)]
  ELSE LET s2 == Insert(st, "Q", rr) IN [ok |-> TRUE, p |-> s2.p, v |-> s2.v]
====
