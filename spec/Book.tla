---- MODULE Book ----
(***************************************************************************)
(* The bookkeeping design of ParsedPacket at size level (C08).             *)
(* A packet is four sections of records; a record carries an abstract      *)
(* owner name and whether the current bytes hold that name as a 2-byte     *)
(* pointer or literally, so every offset is a sum of record sizes.  The    *)
(* object's view (section offsets, EDNS offset / count / flag, the         *)
(* maybe_compressed flag, the cached question) and a cursor (offset, next, *)
(* records left) are separate variables updated by actions that mirror the *)
(* code: resize_rr, set_raw_name, delete, cursor uncompress, insert_rr,    *)
(* recompute, rename, next / maybe_skip_opt_section.                       *)
(* Invariants = C08 at this level: the view always equals the fresh view   *)
(* of the current packet, the flag is sound, the cache is coherent and a   *)
(* live cursor designates a record.                                        *)
(* Every defect of the pinned tree in this area is a CONSTANT switch:      *)
(* all FALSE is the repaired design; each switch on is a negative control  *)
(* that TLC must detect.                                                   *)
(***************************************************************************)
EXTENDS Naturals, Sequences, FiniteSets, TLC

CONSTANTS Names,          \* abstract names
          MaxRecs,        \* max records per section
          MaxOps,         \* depth bound
          BugEdnsShift, BugCache, BugIterUncompress, BugDelOpt, BugSkipLeft, BugRecompute,
          BugOptTtl,       \* set_rr_ttl on the OPT record does not refresh the EDNS summary (F28)
          BugOptName,      \* set_raw_name may give the OPT record an owner name (F27)
          BugInsertOrder   \* insert_rr splices the bytes before it checks the record count (F10)

None == "none"
NoOff == 0
NoCur == [live |-> FALSE, sec |-> "Q", off |-> 0, next |-> 0, left |-> 0, incl |-> FALSE]
BadCur == [live |-> FALSE, sec |-> "BAD", off |-> 0, next |-> 0, left |-> 0, incl |-> FALSE]
ULen(n) == CASE n = "n3" -> 3 [] n = "n5" -> 5 [] n = "n7" -> 7 [] OTHER -> 4
RSecs == <<"AN", "NS", "AR">>
Secs == {"Q", "AN", "NS", "AR"}
SecIdx(s) == CASE s = "Q" -> 0 [] s = "AN" -> 1 [] s = "NS" -> 2 [] s = "AR" -> 3

\* record: [nm, c (owner compressed?), opt (is OPT?), nopts]
NLen(r) == IF r.opt THEN 1 ELSE IF r.c THEN 2 ELSE ULen(r.nm)
RSize(s, r) == IF s = "Q" THEN NLen(r) + 4
               ELSE IF r.opt THEN 1 + 10 + 8 * r.nopts ELSE NLen(r) + 10 + 4

VARIABLES pk, view, ecnt, eflags, mc, cached, cur, bad, nops,
          eval,    \* the object's copy of the OPT record's extended rcode / version / flags (0 without OPT)
          junk     \* bytes that no count covers were left in the packet
vars == <<pk, view, ecnt, eflags, mc, cached, cur, bad, nops, eval, junk>>

RECURSIVE SumSizes(_, _, _)
SumSizes(s, recs, k) == IF k = 0 THEN 0 ELSE RSize(s, recs[k]) + SumSizes(s, recs, k - 1)
SecSize(p, s) == SumSizes(s, p[s], Len(p[s]))
SecStart(p, s) == 12 + (IF SecIdx(s) > 0 THEN SecSize(p, "Q") ELSE 0)
                     + (IF SecIdx(s) > 1 THEN SecSize(p, "AN") ELSE 0)
                     + (IF SecIdx(s) > 2 THEN SecSize(p, "NS") ELSE 0)
RecStart(p, s, i) == SecStart(p, s) + SumSizes(s, p[s], i - 1)
Total(p) == SecStart(p, "AR") + SecSize(p, "AR")
OptIdx(p) == IF \E i \in 1..Len(p["AR"]) : p["AR"][i].opt
             THEN CHOOSE i \in 1..Len(p["AR"]) : p["AR"][i].opt ELSE 0
FreshView(p) == [s \in Secs |-> IF Len(p[s]) = 0 THEN NoOff ELSE SecStart(p, s)]
FreshEdns(p) == IF OptIdx(p) = 0 THEN NoOff ELSE RecStart(p, "AR", OptIdx(p)) + 11
FreshEcnt(p) == IF OptIdx(p) = 0 THEN 0 ELSE p["AR"][OptIdx(p)].nopts
PointerFree(p) == \A s \in Secs : \A i \in 1..Len(p[s]) : ~p[s][i].c
Decomp(p) == [s \in Secs |-> [i \in 1..Len(p[s]) |-> [p[s][i] EXCEPT !.c = FALSE]]]
\* index of the record of section s starting at offset o (0 if none: stale offset)
IdxAt(p, s, o) == IF \E i \in 1..Len(p[s]) : RecStart(p, s, i) = o
                  THEN CHOOSE i \in 1..Len(p[s]) : RecStart(p, s, i) = o ELSE 0

Rec(n, c) == [nm |-> n, c |-> c, opt |-> FALSE, nopts |-> 0, ev |-> 0]
OptRec(k) == [nm |-> "root", c |-> FALSE, opt |-> TRUE, nopts |-> k, ev |-> 1]
FreshEval(p) == IF OptIdx(p) = 0 THEN 0 ELSE p["AR"][OptIdx(p)].ev

\* ---------- initial states: freshly parsed packets ----------
InitPk == { p \in [Secs -> UNION {[1..n -> {Rec(n1, c) : n1 \in Names, c \in BOOLEAN} \cup {OptRec(1)}] : n \in 0..MaxRecs}] :
              /\ Len(p["Q"]) = 1 /\ ~p["Q"][1].opt /\ ~p["Q"][1].c
              /\ \A s \in {"AN", "NS"} : \A i \in 1..Len(p[s]) : ~p[s][i].opt
              /\ Cardinality({i \in 1..Len(p["AR"]) : p["AR"][i].opt}) <= 1 }
Init == /\ pk \in InitPk
        /\ view = [FreshView(pk) EXCEPT !["Q"] = FreshView(pk)["Q"]]
        /\ ecnt = FreshEcnt(pk) /\ eflags = (OptIdx(pk) # 0)
        /\ mc = TRUE /\ cached = None /\ cur = NoCur /\ bad = FALSE /\ nops = 0
        /\ eval = FreshEval(pk) /\ junk = FALSE
VEdns == view  \* placeholder to keep names short

VARIABLE vedns
allvars == <<vars, vedns>>
Init2 == Init /\ vedns = FreshEdns(pk)

Tick == nops < MaxOps /\ nops' = nops + 1

\* ---------- cursor ----------
CountOf(s) == Len(pk[s])
\* advance from (next offset, left) on current pk/view; returns new cursor or None
Advance(s, nxt, left, incl) ==
  IF left = 0 THEN NoCur
  ELSE LET i == IdxAt(pk, s, nxt) IN
       IF i = 0 THEN BadCur
       ELSE LET r == pk[s][i]
                c1 == [live |-> TRUE, sec |-> s, off |-> nxt, next |-> nxt + RSize(s, r), left |-> left - 1, incl |-> incl] IN
            IF r.opt /\ ~incl
            THEN IF c1.left = 0 THEN NoCur
                 ELSE LET j == IdxAt(pk, s, c1.next) IN
                      IF j = 0 THEN BadCur
                      ELSE [c1 EXCEPT !.off = c1.next, !.next = c1.next + RSize(s, pk[s][j]),
                                      !.left = IF BugSkipLeft THEN c1.left ELSE c1.left - 1]
            ELSE c1

SetCur(c) == IF c = BadCur THEN bad' = TRUE /\ cur' = NoCur ELSE bad' = bad /\ cur' = c

IterStart(s, incl) ==
  /\ ~cur.live /\ Tick
  /\ IF CountOf(s) = 0 THEN SetCur(NoCur)
     ELSE IF view[s] = NoOff THEN bad' = TRUE /\ cur' = NoCur
     ELSE SetCur(Advance(s, view[s], CountOf(s), incl))
  /\ UNCHANGED <<pk, view, vedns, ecnt, eflags, mc, cached, eval, junk>>

IterNext ==
  /\ cur.live /\ Tick
  /\ IF cur.off = NoOff   \* tombstone: restart
     THEN IF CountOf(cur.sec) = 0 THEN SetCur(NoCur)
          ELSE IF view[cur.sec] = NoOff THEN bad' = TRUE /\ cur' = NoCur
          ELSE SetCur(Advance(cur.sec, view[cur.sec], CountOf(cur.sec), cur.incl))
     ELSE SetCur(Advance(cur.sec, cur.next, cur.left, cur.incl))
  /\ UNCHANGED <<pk, view, vedns, ecnt, eflags, mc, cached, eval, junk>>

IterClose == cur.live /\ cur' = NoCur /\ UNCHANGED <<pk, view, vedns, ecnt, eflags, mc, cached, bad, nops, eval, junk>>

\* decompress in place, translating an offset that sits on a record boundary of section s
ShiftAfter(v, s, d) == [t \in Secs |-> IF v[t] # NoOff /\ SecIdx(t) > SecIdx(s) THEN v[t] + d ELSE v[t]]

\* common prologue of set_raw_name / delete: returns [pk, view, vedns, off, next, cached] after optional decompression
Prologue(i) ==
  IF mc THEN LET p2 == Decomp(pk) IN
       [pk |-> p2, view |-> FreshView(p2), vedns |-> FreshEdns(p2),
        off |-> RecStart(p2, cur.sec, i), next |-> RecStart(p2, cur.sec, i) + RSize(cur.sec, p2[cur.sec][i]), cached |-> None]
  ELSE [pk |-> pk, view |-> view, vedns |-> vedns, off |-> cur.off, next |-> cur.next, cached |-> cached]

SetName(n) ==
  /\ cur.live /\ cur.off # NoOff /\ Tick
  /\ LET i == IdxAt(pk, cur.sec, cur.off) IN
     IF i = 0 THEN bad' = TRUE /\ UNCHANGED <<pk, view, vedns, ecnt, eflags, mc, cached, cur, eval, junk>>
     ELSE IF pk[cur.sec][i].opt /\ ~BugOptName
     THEN UNCHANGED <<pk, view, vedns, ecnt, eflags, mc, cached, cur, bad, eval, junk>>      \* refused: OPT keeps the root name
     ELSE LET pr == Prologue(i)
              old == pr.pk[cur.sec][i]
              shift == ULen(n) + 100 - NLen(old)      \* +100 to stay in Nat; subtract below
              optAfter == OptIdx(pr.pk) # 0 /\ (SecIdx(cur.sec) < 3 \/ OptIdx(pr.pk) > i)
              np == [pr.pk EXCEPT ![cur.sec][i].nm = n, ![cur.sec][i].c = FALSE]
          IN /\ pk' = np
             /\ view' = [t \in Secs |-> IF pr.view[t] # NoOff /\ SecIdx(t) > SecIdx(cur.sec)
                                        THEN pr.view[t] + shift - 100 ELSE pr.view[t]]
             /\ vedns' = IF pr.vedns # NoOff /\ optAfter /\ ~BugEdnsShift THEN pr.vedns + shift - 100 ELSE pr.vedns
             /\ cur' = [cur EXCEPT !.off = pr.off, !.next = pr.next + shift - 100]
             /\ mc' = FALSE
             /\ cached' = IF cur.sec = "Q" /\ ~BugCache THEN None ELSE pr.cached
             /\ UNCHANGED <<ecnt, eflags, bad, eval, junk>>

\* set_rr_ttl through the cursor: for the OPT record the TTL field *is* the extended rcode / version / flags
SetTtl(v) ==
  /\ cur.live /\ cur.off # NoOff /\ Tick
  /\ LET i == IdxAt(pk, cur.sec, cur.off) IN
     IF i = 0 THEN bad' = TRUE /\ UNCHANGED <<pk, view, vedns, ecnt, eflags, mc, cached, cur, eval, junk>>
     ELSE IF ~pk[cur.sec][i].opt THEN UNCHANGED <<pk, view, vedns, ecnt, eflags, mc, cached, cur, bad, eval, junk>>
     ELSE /\ pk' = [pk EXCEPT ![cur.sec][i].ev = v]
          /\ eval' = IF BugOptTtl THEN eval ELSE v
          /\ UNCHANGED <<view, vedns, ecnt, eflags, mc, cached, cur, bad, junk>>

Delete ==
  /\ cur.live /\ Tick
  /\ IF cur.off = NoOff THEN UNCHANGED <<pk, view, vedns, ecnt, eflags, mc, cached, cur, bad, eval, junk>>   \* void record
     ELSE LET i == IdxAt(pk, cur.sec, cur.off) IN
     IF i = 0 THEN bad' = TRUE /\ UNCHANGED <<pk, view, vedns, ecnt, eflags, mc, cached, cur, eval, junk>>
     ELSE LET pr == Prologue(i)
              old == pr.pk[cur.sec][i]
              sz == RSize(cur.sec, old)
              optAfter == OptIdx(pr.pk) # 0 /\ (SecIdx(cur.sec) < 3 \/ OptIdx(pr.pk) > i)
              np == [pr.pk EXCEPT ![cur.sec] = SubSeq(pr.pk[cur.sec], 1, i - 1) \o SubSeq(pr.pk[cur.sec], i + 1, Len(pr.pk[cur.sec]))]
              v1 == [t \in Secs |-> IF pr.view[t] # NoOff /\ SecIdx(t) > SecIdx(cur.sec) THEN pr.view[t] - sz ELSE pr.view[t]]
          IN /\ pk' = np
             /\ view' = IF Len(np[cur.sec]) = 0 THEN [v1 EXCEPT ![cur.sec] = NoOff] ELSE v1
             /\ vedns' = IF old.opt /\ ~BugDelOpt THEN NoOff
                         ELSE IF pr.vedns # NoOff /\ optAfter /\ ~BugEdnsShift THEN pr.vedns - sz ELSE pr.vedns
             /\ ecnt' = IF old.opt /\ ~BugDelOpt THEN 0 ELSE ecnt
             /\ eflags' = IF old.opt /\ ~BugDelOpt THEN FALSE ELSE eflags
             /\ eval' = IF old.opt /\ ~BugDelOpt THEN 0 ELSE eval
             /\ junk' = junk
             /\ cur' = [cur EXCEPT !.off = NoOff, !.next = pr.off]
             /\ mc' = FALSE
             /\ cached' = IF cur.sec = "Q" /\ ~BugCache THEN None ELSE pr.cached
             /\ bad' = bad

IterUncompress ==
  /\ cur.live /\ cur.off # NoOff /\ Tick
  /\ UNCHANGED <<eval, junk>>
  /\ IF ~mc THEN UNCHANGED <<pk, view, vedns, ecnt, eflags, mc, cached, cur, bad>>
     ELSE LET i == IdxAt(pk, cur.sec, cur.off) IN
          IF i = 0 THEN bad' = TRUE /\ UNCHANGED <<pk, view, vedns, ecnt, eflags, mc, cached, cur>>
          ELSE LET pr == Prologue(i) IN
               /\ pk' = pr.pk /\ view' = pr.view /\ vedns' = pr.vedns /\ mc' = FALSE /\ cached' = None
               /\ cur' = IF BugIterUncompress THEN [cur EXCEPT !.next = pr.next] ELSE [cur EXCEPT !.off = pr.off, !.next = pr.next]
               /\ UNCHANGED <<ecnt, eflags, bad>>

Insert(s, n) ==
  /\ ~cur.live /\ Tick /\ eval' = eval
  /\ junk' = (junk \/ (BugInsertOrder /\ s = "Q" /\ Len(pk["Q"]) >= 1))      \* F10: bytes spliced in, then the count check fails
  /\ IF s = "Q" /\ Len(pk["Q"]) >= 1
     THEN \* failure: decompressed but otherwise unchanged
          LET p2 == IF mc THEN Decomp(pk) ELSE pk IN
          /\ pk' = p2 /\ view' = (IF mc THEN FreshView(p2) ELSE view) /\ vedns' = (IF mc THEN FreshEdns(p2) ELSE vedns)
          /\ mc' = FALSE /\ cached' = (IF mc THEN None ELSE cached) /\ UNCHANGED <<ecnt, eflags, cur, bad>>
     ELSE /\ Len(pk[s]) < MaxRecs
          /\ LET p2 == IF mc THEN Decomp(pk) ELSE pk
                 v2 == IF mc THEN FreshView(p2) ELSE view
                 e2 == IF mc THEN FreshEdns(p2) ELSE vedns
                 r == Rec(n, FALSE)
                 sz == RSize(s, r)
                 at == IF s = "AR" THEN Total(p2)
                       ELSE LET later == {t \in Secs : SecIdx(t) > SecIdx(s) /\ v2[t] # NoOff} IN
                            IF later = {} THEN Total(p2)
                            ELSE v2[CHOOSE t \in later : \A t2 \in later : SecIdx(t) <= SecIdx(t2)]
             IN /\ pk' = [p2 EXCEPT ![s] = Append(p2[s], r)]
                /\ view' = [t \in Secs |-> IF t = s THEN (IF v2[s] = NoOff THEN at ELSE v2[s])
                                           ELSE IF v2[t] # NoOff /\ SecIdx(t) > SecIdx(s) THEN v2[t] + sz ELSE v2[t]]
                /\ vedns' = IF e2 # NoOff /\ s # "AR" THEN e2 + sz ELSE e2
                /\ mc' = FALSE
                /\ cached' = IF s = "Q" /\ ~BugCache THEN None ELSE (IF mc THEN None ELSE cached)
                /\ UNCHANGED <<ecnt, eflags, cur, bad>>

ReadQuestion ==
  /\ ~cur.live /\ Tick
  /\ cached' = IF cached # None THEN cached ELSE IF Len(pk["Q"]) = 0 THEN None ELSE pk["Q"][1].nm
  /\ UNCHANGED <<pk, view, vedns, ecnt, eflags, mc, cur, bad, eval, junk>>

Recompute ==
  /\ ~cur.live /\ Tick /\ UNCHANGED <<eval, junk>>
  /\ IF ~mc THEN UNCHANGED <<pk, view, vedns, ecnt, eflags, mc, cached, cur, bad>>
     ELSE LET p2 == IF BugRecompute THEN pk ELSE Decomp(pk) IN
          /\ pk' = p2 /\ view' = FreshView(p2) /\ vedns' = FreshEdns(p2) /\ mc' = FALSE /\ cached' = None
          /\ UNCHANGED <<ecnt, eflags, cur, bad>>

\* rename n1 -> n2 everywhere, output recompressed (owner equal to the question's gets a pointer)
Rename(n1, n2) ==
  /\ ~cur.live /\ Tick /\ Len(pk["Q"]) = 1 /\ UNCHANGED <<eval, junk>>
  /\ LET mapn(x) == IF x = n1 THEN n2 ELSE x
         qn == mapn(pk["Q"][1].nm)
         p2 == [s \in Secs |-> [i \in 1..Len(pk[s]) |->
                   IF pk[s][i].opt THEN pk[s][i]
                   ELSE [pk[s][i] EXCEPT !.nm = mapn(@), !.c = (s # "Q" /\ mapn(pk[s][i].nm) = qn)]]]
     IN /\ pk' = p2 /\ view' = FreshView(p2) /\ vedns' = FreshEdns(p2) /\ mc' = TRUE
        /\ cached' = IF BugCache THEN cached ELSE None
        /\ UNCHANGED <<ecnt, eflags, cur, bad>>

Next == \/ \E s \in {"Q", "AN", "NS", "AR"} : IterStart(s, FALSE)
        \/ IterStart("AR", TRUE)
        \/ IterNext \/ IterClose
        \/ \E n \in Names : SetName(n)
        \/ Delete \/ IterUncompress \/ \E v \in {1, 2} : SetTtl(v)
        \/ \E s \in Secs, n \in Names : Insert(s, n)
        \/ ReadQuestion \/ Recompute
        \/ \E n1, n2 \in Names : n1 # n2 /\ Rename(n1, n2)

Spec == Init2 /\ [][Next]_allvars

\* ---------- invariants (C08 at the bookkeeping level) ----------
NoBad == ~bad
ViewCoherent == view = FreshView(pk)
EdnsCoherent == vedns = FreshEdns(pk) /\ ecnt = FreshEcnt(pk) /\ eflags = (OptIdx(pk) # 0) /\ eval = FreshEval(pk)
OptKeepsRoot == \A i \in 1..Len(pk["AR"]) : pk["AR"][i].opt => pk["AR"][i].nm = "root"
NoJunk == ~junk
FlagSound == ~mc => PointerFree(pk)
CacheCoherent == cached # None => (Len(pk["Q"]) = 1 /\ cached = pk["Q"][1].nm)
CursorCoherent == (cur.live /\ cur.off # NoOff) =>
                     LET i == IdxAt(pk, cur.sec, cur.off) IN
                     /\ i # 0 /\ cur.next = cur.off + RSize(cur.sec, pk[cur.sec][i])
                     /\ cur.left <= Len(pk[cur.sec]) - i
====
