---- MODULE Walk ----
(***************************************************************************)
(* C11: deleting records while iterating.                                  *)
(*                                                                         *)
(* Property level: a walk over a section yields records; the caller        *)
(* deletes the record under the cursor iff it belongs to D; a second       *)
(* delete through the same cursor is a void-record error.  At the end:     *)
(* no deleted record was yielded again, every survivor was yielded at      *)
(* least once, the section holds exactly the survivors in their original   *)
(* order, and the walk terminates.                                         *)
(*                                                                         *)
(* Implementation shaped (src/rr_iterator.rs:284-323, response_iterator.rs *)
(* :94-115): delete shrinks the packet, invalidates the cursor and         *)
(* decrements the count; a cursor without offset restarts from the         *)
(* section's start with the current count, so survivors in front of the    *)
(* deleted record are yielded again (allowed by C11).  OPT is stepped over *)
(* by the skipping reader.  Records are identified by their original       *)
(* index; OptAt = 0 means no OPT in the section.                           *)
(***************************************************************************)
EXTENDS Naturals, Sequences, FiniteSets, TLC

CONSTANTS MaxN,        \* section sizes 0..MaxN
          FixSkip,     \* the OPT-skipping reader decrements its counter (F01 repaired)
          Restart      \* TRUE: restart from the section start after a delete (the code); FALSE: continue (an alternative design)

VARIABLES n, D, optAt, incl,          \* scenario: size, records to delete, position of OPT (0 = none), reader kind
          sec,                        \* current section: sequence of original indices
          pos, left, tomb, started,   \* cursor: position in sec (1-based), records left, tombstone flag
          yielded, deleted, finished, steps
vars == <<n, D, optAt, incl, sec, pos, left, tomb, started, yielded, deleted, finished, steps>>

Init == /\ n \in 0..MaxN /\ D \in SUBSET (1..n) /\ optAt \in 0..n /\ incl \in BOOLEAN
        /\ (optAt # 0 /\ ~incl => optAt \notin D)          \* the skipping reader never sees OPT, so it cannot delete it
        /\ sec = [i \in 1..n |-> i]
        /\ pos = 0 /\ left = 0 /\ tomb = FALSE /\ started = FALSE
        /\ yielded = <<>> /\ deleted = {} /\ finished = FALSE /\ steps = 0

IsOpt(id) == id = optAt
\* advance from (p, l): next position to yield, skipping OPT for the skipping reader; 0 = end
RECURSIVE Adv(_, _)
Adv(p, l) ==
  IF l = 0 THEN [pos |-> 0, left |-> 0]
  ELSE LET q == p + 1 IN
       IF q > Len(sec) THEN [pos |-> 99, left |-> l - 1]          \* read outside the section (must not happen)
       ELSE IF ~incl /\ IsOpt(sec[q])
            THEN (IF l - 1 = 0 THEN [pos |-> 0, left |-> 0]
                  ELSE IF FixSkip THEN Adv(q, l - 1) ELSE [pos |-> q + 1, left |-> l - 1])
            ELSE [pos |-> q, left |-> l - 1]

Finish == finished' = TRUE /\ UNCHANGED <<n, D, optAt, incl, sec, pos, left, tomb, started, yielded, deleted, steps>>

\* the caller's reaction to a yielded record: delete it iff it is in D (then delete again: void record)
Visit(a) ==
  /\ steps' = steps + 1
  /\ started' = TRUE
  /\ IF a.pos = 0 THEN Finish /\ FALSE
     ELSE IF a.pos > Len(sec) THEN /\ yielded' = Append(yielded, 0) /\ finished' = TRUE        \* out of bounds
                                   /\ UNCHANGED <<sec, pos, left, tomb, deleted>>
     ELSE LET id == sec[a.pos] IN
          /\ yielded' = Append(yielded, id)
          /\ IF id \in D
             THEN /\ sec' = SubSeq(sec, 1, a.pos - 1) \o SubSeq(sec, a.pos + 1, Len(sec))
                  /\ deleted' = deleted \cup {id}
                  /\ tomb' = TRUE /\ pos' = a.pos - 1 /\ left' = a.left
             ELSE /\ UNCHANGED <<sec, deleted>> /\ tomb' = FALSE /\ pos' = a.pos /\ left' = a.left
          /\ UNCHANGED finished
  /\ UNCHANGED <<n, D, optAt, incl>>

Next ==
  /\ ~finished
  /\ LET a == IF ~started \/ (tomb /\ Restart) THEN Adv(0, Len(sec)) ELSE Adv(pos, left) IN
     IF a.pos = 0 THEN Finish ELSE Visit(a)
Spec == Init /\ [][Next]_vars /\ WF_vars(Next)

----------------------------------------------------------------------------
Walkable == IF incl THEN 1..n ELSE (1..n) \ {optAt}
InBounds == \A k \in 1..Len(yielded) : yielded[k] # 0
NeverYieldDeleted == \A k \in 1..Len(yielded) : \A j \in 1..(k - 1) : ~(yielded[j] = yielded[k] /\ yielded[j] \in D)
NeverYieldOptWhenSkipping == ~incl => \A k \in 1..Len(yielded) : yielded[k] # optAt \/ optAt = 0
SectionIsSurvivors == sec = SelectSeq([i \in 1..n |-> i], LAMBDA i : i \notin deleted)
AtEnd == finished /\ InBounds =>
           /\ (Walkable \ D) \subseteq {yielded[k] : k \in 1..Len(yielded)}      \* every survivor yielded at least once
           /\ deleted = D \cap Walkable                                         \* each chosen record deleted exactly once
Bounded == steps <= (MaxN + 1) * (MaxN + 1)
Terminates == <>finished
====
