---- MODULE MC_Compress ----
EXTENDS Compress
====
