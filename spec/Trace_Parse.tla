---- MODULE Trace_Parse ----
(***************************************************************************)
(* Trace validation for single parser calls (C01, C02, C18) and for the    *)
(* public name checkers and cursor primitives (C01).                       *)
(*                                                                         *)
(* Events are independent, so every recorded line is an initial state and  *)
(* the property is an invariant: TLC evaluates them on all workers and     *)
(* -continue reports every offending line.                                 *)
(***************************************************************************)
EXTENDS Message, Json, IOUtils

Rec == ndJsonDeserialize(IOEnv.TRACE)
\* TLC computes initial states on one thread but explores successors on all workers: the check of
\* event l is therefore attached to the single step (l, 0) -> (l, 1) and not to the initial state.
VARIABLES l, done
Init == l \in 1..Len(Rec) /\ done = 0
Once == done = 0 /\ done' = 1 /\ l' = l

\* a rejected event is printed and the invariant stays TRUE: the orchestrator collects the lines
Report(tag, why) == PrintT("@@" \o tag \o "|" \o ToString(l) \o "|" \o why)

----------------------------------------------------------------------------
(* C01: totality *)

\* arguments >= 2^30 are logged as -1
Huge(x) == x < 0

\* the cursor primitives as a machine over (off): fold the logged operations
RECURSIVE PrimsOK(_, _, _, _)
PrimsOK(p, ops, i, off) ==
  IF i > Len(ops) THEN TRUE
  ELSE LET o == ops[i]  n == Len(p) IN
    /\ o.res \in {"ok", "err"}
    /\ ~Huge(o.off) /\ o.off <= n
    /\ CASE o.op = 0 ->      \* set_offset(arg): succeeds iff arg < len, returns the old offset
              IF ~Huge(o.arg) /\ o.arg < n THEN o.res = "ok" /\ o.val = off /\ o.off = o.arg
              ELSE o.res = "err" /\ o.off = off
         [] o.op = 1 ->      \* increment_offset(arg): succeeds iff arg <= len - off
              IF ~Huge(o.arg) /\ o.arg <= n - off THEN o.res = "ok" /\ o.val = off /\ o.off = off + o.arg
              ELSE o.res = "err" /\ o.off = off
         [] o.op = 2 ->      \* rr_rdlen: 16-bit value at off + 8 if 10 bytes remain
              IF n - off >= 10 THEN o.res = "ok" /\ o.val = U16(p, off + 8) /\ o.off = off
              ELSE o.res = "err" /\ o.off = off
         [] OTHER ->         \* edns_rr_rdlen outside an OPT record: nothing remains
              o.res = "err" /\ o.off = off
    /\ PrimsOK(p, ops, i + 1, o.off)

NameOK(e) ==
  LET p == e.pkt IN
  /\ e.c.res \in {"ok", "err"} /\ e.u.res \in {"ok", "err"}
  /\ IF Huge(e.off) THEN e.c.res = "err" /\ e.u.res = "err"
     ELSE LET c == CName(p, e.off)  u == UName(p, e.off) IN
          /\ (e.c.res = "ok") = c.ok /\ (c.ok => e.c.end = c.end)
          /\ (e.u.res = "ok") = u.ok /\ (u.ok => e.u.end = u.end)

C01Why(e) ==
  CASE e.k = "parse" -> IF e.res \notin {"ok", "err"} THEN "parse:" \o e.res
                        ELSE IF e.res = "ok" /\ ~e.same THEN "parse: bytes changed" ELSE ""
    [] e.k = "name"  -> IF NameOK(e) THEN "" ELSE "name checker"
    [] e.k = "prims" -> IF e.new = "ok" /\ PrimsOK(e.pkt, e.ops, 1, 0) THEN "" ELSE "cursor primitive"
    [] e.k \in {"hang", "abort"} -> e.k
    [] OTHER -> ""
C01(e) == LET w == C01Why(e) IN IF w = "" THEN TRUE ELSE Report("VIOLATION-C01", w)
NextC01 == Once /\ C01(Rec[l])

----------------------------------------------------------------------------
(* C02: accepted <=> well-formed *)

\* every parse event also reports the clause it fails ("" = well-formed): the orchestrator
\* tallies them so that a run in which some clause was never exercised is reported as vacuous
C02(e) ==
       IF e.k # "parse" \/ ~e.logged THEN TRUE     \* bytes of very large random inputs are not logged
       ELSE LET w == WhyNot(e.pkt) IN
            /\ PrintT("@@CLAUSE|" \o ToString(l) \o "|" \o w)
            /\ IF e.res \notin {"ok", "err"} /\ w = "" THEN Report("VIOLATION-C02", "a well-formed packet was not accepted: parse " \o e.res)
               ELSE IF e.res \notin {"ok", "err"} \/ (e.res = "ok") = (w = "") THEN TRUE
               ELSE Report("VIOLATION-C02", IF w = "" THEN "rejected a well-formed packet: " \o e.err
                                            ELSE "accepted a packet that violates: " \o w)

NextC02 == Once /\ C02(Rec[l])

----------------------------------------------------------------------------
(* C18: steps <= K * len + C with K, C derived from the limits *)

StepsPerRecord == 2 * (MaxRefs + (MaxName + 1) \div 2) + 1
\* the cheapest record that can cost StepsPerRecord is 14 bytes (2-byte owner pointer, 10-byte
\* fixed part, 2-byte data pointer).  The constant covers the question and one record that is
\* rejected after its (at most three) name walks without having been amortised over its bytes.
C18Bound(len) == (StepsPerRecord * len) \div 14 + 3 * (MaxRefs + (MaxName + 1) \div 2) + 2
\* a call that panics has still spent its steps: they are judged too (in an optimised build the same input may
\* loop for ever); a call that makes no progress for the watchdog's patience does not terminate
C18Why(e) ==
  IF e.k = "hang" THEN "validation does not terminate"
  ELSE IF e.k # "parse" THEN ""
  ELSE IF e.steps <= C18Bound(e.len) THEN "" ELSE "steps " \o ToString(e.steps) \o " > bound " \o ToString(C18Bound(e.len))
C18(e) == LET w == C18Why(e) IN IF w = "" THEN TRUE ELSE Report("VIOLATION-C18", w)
NextC18 == Once /\ C18(Rec[l])
====
