---- MODULE MC_Walk ----
EXTENDS Walk
====
