---- MODULE MC_Rename ----
EXTENDS RenameImpl
CONSTANTS MaxLabels
LabelSet == {<<97>>, <<65>>, <<97, 98>>}   \* a, A, ab: case variants and a partial-label near miss
Seqs(n) == UNION { [1..k -> LabelSet] : k \in 0..n }
VARIABLES nm, src, tgt, sfx, done
Init == nm \in Seqs(MaxLabels) /\ src \in Seqs(MaxLabels) \ {<<>>} /\ tgt \in Seqs(MaxLabels) \ {<<>>} /\ sfx \in BOOLEAN /\ done = 0
Agrees ==
  LET r == ReplaceRaw(RawName(nm), RawName(tgt), RawName(src), sfx)
      e == Replace(nm, tgt, src, sfx)
      n == Len(nm)  k == Len(src)
      matched == IF sfx THEN n >= k /\ LowerLabels(SubSeq(nm, n - k + 1, n)) = LowerLabels(src) ELSE LowerLabels(nm) = LowerLabels(src) IN
  IF ~matched THEN r.k = "none" /\ e = nm
  ELSE IF WireLen(e) > MaxName THEN r.k = "err"
  ELSE r.k = "some" /\ r.v = RawName(e)
Next == done = 0 /\ done' = 1 /\ UNCHANGED <<nm, src, tgt, sfx>> /\ Assert(Agrees, <<"replace_raw disagrees with Replace", nm, src, tgt, sfx>>)
====
