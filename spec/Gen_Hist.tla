---- MODULE Gen_Hist ----
(***************************************************************************)
(* Behaviours of the packet object for replay (scenario source S3): every  *)
(* sequence of at most MaxLen operations over an abstract alphabet.  The   *)
(* alphabet distinguishes what matters to the bookkeeping of the object:   *)
(* which section a cursor works in, whether a name change keeps / grows /  *)
(* shrinks the record, deletion, in-place decompression, insertion into a  *)
(* section in front of / behind others, reading the question (fills the    *)
(* cache), recompute, rename, and clearing the response bit (puts the      *)
(* packet into a state the parser rejects).  The orchestrator maps each    *)
(* abstract operation to a concrete call with arguments and replays every  *)
(* sequence on several base packets; the recorded steps are validated      *)
(* against History.                                                        *)
(***************************************************************************)
EXTENDS Naturals, Sequences, TLC, Json

CONSTANTS Ops, MaxLen

VARIABLE h
Init == h = <<>>
Next == /\ Len(h) < MaxLen
        /\ \E o \in Ops : h' = Append(h, o)
        /\ PrintT("@@REPLAY|" \o ToJson(h'))
====
