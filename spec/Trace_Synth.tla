---- MODULE Trace_Synth ----
(* C13: trace validation of RR::from_string and of the insertion of its result. *)
EXTENDS Synth, Json, IOUtils
Rec == ndJsonDeserialize(IOEnv.TRACE)
VARIABLES l, done
Init == l \in 1..Len(Rec) /\ done = 0
Once == done = 0 /\ done' = 1 /\ l' = l
Report(tag, why) == PrintT("@@" \o tag \o "|" \o ToString(l) \o "|" \o why)
C13(e) == LET w == SynthWhy(e) IN IF w = "" THEN TRUE ELSE Report("VIOLATION-C13", w)
NextC13 == Once /\ C13(Rec[l])
====
