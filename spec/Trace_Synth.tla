---- MODULE Trace_Synth ----
(* C13: trace validation of RR::from_string and of the insertion of its result. *)
EXTENDS Synth, Json, IOUtils
Rec == ndJsonDeserialize(IOEnv.TRACE)
VARIABLES l, done
Init == l \in 1..Len(Rec) /\ done = 0
Once == done = 0 /\ done' = 1 /\ l' = l
\* the driver process was killed by the scenario (abort, stack overflow) or made no progress (hang)
Died(e) == e.k \in {"hang", "abort"}
Report(tag, why) == PrintT("@@" \o tag \o "|" \o ToString(l) \o "|" \o why)
C13(e) == LET w == SynthWhy(e) IN IF w = "" THEN TRUE ELSE Report("VIOLATION-C13", w)
NextC13 == Once /\ (IF Died(Rec[l]) THEN Report("VIOLATION-C13", "the library " \o Rec[l].k \o "s") ELSE C13(Rec[l]))
====
