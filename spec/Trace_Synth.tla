---- MODULE Trace_Synth ----
(***************************************************************************)
(* C13: trace validation of RR::from_string and of the insertion of its    *)
(* result.  Two oracles judge every recorded call:                         *)
(*   SynthWhy    the structured record the scenario generator built the    *)
(*               text from (valid texts and systematically damaged ones)   *)
(*   GrammarWhy  the grammar itself (spec/TextGrammar.tla) applied to the  *)
(*               bytes of the text: decides arbitrary strings too          *)
(* They are independent descriptions of the same language: a text one      *)
(* calls valid and the other excludes is reported as a tool error          *)
(* (SPEC-DISAGREE), never as a violation.                                  *)
(***************************************************************************)
EXTENDS TextGrammar, Json, IOUtils
Rec == ndJsonDeserialize(IOEnv.TRACE)
VARIABLES l, done
Init == l \in 1..Len(Rec) /\ done = 0
Once == done = 0 /\ done' = 1 /\ l' = l
\* the driver process was killed by the scenario (abort, stack overflow) or made no progress (hang)
Died(e) == e.k \in {"hang", "abort"}
Report(tag, why) == PrintT("@@" \o tag \o "|" \o ToString(l) \o "|" \o why)
C13(e) ==
  LET w == SynthWhy(e)  c == Classify(e.text)  g == GrammarWhy(e) IN
  /\ Report("FACT", e.expect \o "|" \o c.k)
  /\ IF (e.expect = "ok" /\ c.k = "err") \/ (e.expect = "err" /\ c.k = "ok")
        \/ (e.expect = "ok" /\ c.k = "ok" /\ WireRR(c.rec) # WireRR(e.rec))
     THEN Report("SPEC-DISAGREE", "generator says " \o e.expect \o ", the grammar says " \o c.k)
     ELSE IF w # "" THEN Report("VIOLATION-C13", w)
     ELSE IF g # "" THEN Report("VIOLATION-C13", g)
     ELSE TRUE
NextC13 == Once /\ (IF Died(Rec[l]) THEN Report("VIOLATION-C13", "the library " \o Rec[l].k \o "s") ELSE C13(Rec[l]))
====
