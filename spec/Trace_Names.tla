---- MODULE Trace_Names ----
(* C14: trace validation of raw_name_from_str and of the read-back through set_raw_name / name(). *)
EXTENDS NameText, Json, IOUtils

Rec == ndJsonDeserialize(IOEnv.TRACE)
VARIABLES l, done
Init == l \in 1..Len(Rec) /\ done = 0
Once == done = 0 /\ done' = 1 /\ l' = l
\* the driver process was killed by the scenario (abort, stack overflow) or made no progress (hang)
Died(e) == e.k \in {"hang", "abort"}
Report(tag, why) == PrintT("@@" \o tag \o "|" \o ToString(l) \o "|" \o why)

\* e = [text, zone, res, wire, rk (result of giving the name to a record: ok/err/panic/none), rb (name() afterwards),
\*      app (copy_raw_name_from_str into vectors holding 1, 2, 100, 250, 300 bytes: same verdict, prefix kept, same bytes)]
C14Why(e) ==
  LET w == ConvWhy(e.text, e.zone, e.res, e.wire) IN
  IF w # "" THEN w
  ELSE IF e.res = "ok" /\ Len(e.text) > 0 /\ e.rk = "ok" /\ e.rb # ReadBackText(e.text, e.zone)
       THEN "a record given the converted name does not read back as the lower-cased input"
  ELSE IF ~e.app THEN "appending the converted name to a vector that already holds bytes gives another verdict or other bytes than converting it alone"
  ELSE ""
Fact(e) == IF MustAccept(e.text, e.zone) THEN "must-accept" ELSE IF MustReject(e.text, e.zone) THEN "must-reject" ELSE "unspecified"
C14(e) == LET w == C14Why(e) IN
          /\ PrintT("@@FACT|" \o ToString(l) \o "|" \o Fact(e) \o (IF e.res = "ok" /\ e.rk = "ok" /\ Len(e.text) > 0 THEN "+readback" ELSE ""))
          /\ (IF w = "" THEN TRUE ELSE Report("VIOLATION-C14", w))
NextC14 == Once /\ (IF Died(Rec[l]) THEN Report("VIOLATION-C14", "the library " \o Rec[l].k \o "s") ELSE C14(Rec[l]))
====
