CONSTANTS
  MaxN = 5
  FixSkip = TRUE
SPECIFICATION Spec
INVARIANTS InBounds LeftCounts Exact Prefix
PROPERTY Terminates
CHECK_DEADLOCK FALSE
