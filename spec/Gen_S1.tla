---- MODULE Gen_S1 ----
(***************************************************************************)
(* Packets born in the specification (scenario source S1).                 *)
(*                                                                         *)
(* The universe is a product of small choice sets: response bit, question  *)
(* name, shape of each section (0..2 answers, 0..1 authority, 0..3         *)
(* additional with OPT absent / first / middle / last and 0..2 options),   *)
(* record types {A, AAAA, NS, CNAME, PTR, MX, SOA, DNAME, TXT, 999}, names *)
(* from a small universe with shared suffixes, root and mixed case, and    *)
(* the layout.  Index i selects one point of the product by mixed-radix    *)
(* decomposition of (Offset + i * Stride) mod Size, so a run with          *)
(* Count = Size is exhaustive and a smaller Count is an evenly spread      *)
(* deterministic sample.  Every emitted packet satisfies the round-trip    *)
(* invariant Decode(Encode(m)) = m, checked by TLC while generating.       *)
(***************************************************************************)
EXTENDS Encode, Json, IOUtils

CONSTANTS Count, Stride, Offset

La == <<97>>
Lb == <<66>>
Lab == <<97, 98>>
Lc == <<99>>
Lxyz == <<120, 89, 122>>
Long62 == [i \in 1..62 |-> 108]

\* includes two names that differ only in bit 5 of a non-letter ('[' / '{'): different names, though a careless
\* case-insensitive comparison would identify them
Names == << <<La>>, <<Lb, La>>, <<Lab, Lb, La>>, <<Lc>>, <<Lxyz, Lc>>, <<>>, <<La, Lb, La>>, << <<98>>, La>>, <<Long62, Lc>>,
            << <<97, 91, 98>>, Lb, La>>, << <<97, 123, 98>>, Lb, La>> >>
QNames == << <<La>>, <<Lb, La>>, <<>>, <<Lab, Lb, La>> >>
\* 18 (AFSDB) and 33 (SRV) have a name-bearing layout elsewhere but are opaque to this library
Types == <<TA, TAAAA, TNS, TCNAME, TPTR, TMX, TSOA, TDNAME, 16, 999, 18, 33>>
Layouts == <<"plain", "greedy", "tails">>
\* additional-section shapes: 0 = ordinary record, 1 = OPT
ARShapes == << <<>>, <<0>>, <<1>>, <<0, 0>>, <<1, 0>>, <<0, 1>>, <<0, 1, 0>>, <<1, 0, 0>>, <<0, 0, 1>> >>
OptSets == << <<>>, <<[code |-> 8, b |-> <<0, 1, 24, 0, 10, 0, 0>>]>>, <<[code |-> 10, b |-> <<>>], [code |-> 12, b |-> <<0, 0, 0>>]>> >>

Dims == <<2, Len(QNames), 3, 2, Len(ARShapes), Len(Layouts), Len(Types), Len(Types), Len(Names), Len(Names), Len(OptSets)>>
RECURSIVE Prod(_, _)
Prod(d, k) == IF k = 0 THEN 1 ELSE d[k] * Prod(d, k - 1)
Size == Prod(Dims, Len(Dims))
Digit(j, k) == (j \div Prod(Dims, k - 1)) % Dims[k]

Pick(sq, n) == sq[(n % Len(sq)) + 1]

\* the n-th ordinary record of the message selected by j
Rec0(j, n) ==
  LET ty == Pick(Types, Digit(j, 7) + n * (Digit(j, 8) + 1))
      own == Pick(Names, Digit(j, 9) + n)
      dn == Pick(Names, Digit(j, 10) + 2 * n)
      dn2 == Pick(Names, Digit(j, 10) + n + 1)
      ttl == <<(n * 77) % 256, 0, j % 256, n>>
      d == IF ty \in {TNS, TCNAME, TPTR} THEN [k |-> "name", n |-> dn]
           ELSE IF ty = TMX THEN [k |-> "mx", pref |-> <<j % 7, n>>, n |-> dn]
           ELSE IF ty = TSOA THEN [k |-> "soa", n1 |-> dn, n2 |-> dn2, tail |-> [i \in 1..20 |-> (i * (n + 1)) % 256]]
           ELSE IF ty = TA THEN [k |-> "raw", b |-> <<10, n, j % 256, 1>>]
           ELSE IF ty = TAAAA THEN [k |-> "raw", b |-> [i \in 1..16 |-> (i + n) % 256]]
           ELSE IF ty = TDNAME THEN [k |-> "raw", b |-> RawName(dn)]
           ELSE IF ty = 16 THEN [k |-> "raw", b |-> <<2, 104, 105>>]
           ELSE IF ty \in {18, 33} THEN [k |-> "raw", b |-> IF n % 2 = 0 THEN <<0, 1, 192, 12>> ELSE <<0, 1>>]
           ELSE [k |-> "raw", b |-> [i \in 1..(n % 4) |-> 255 - i]]
  IN [labels |-> own, type |-> ty, class |-> IF n % 5 = 4 THEN 3 ELSE 1, ttl |-> ttl, d |-> d]

OptRec(j) == [labels |-> <<>>, type |-> TOPT, class |-> 1232 + (j % 3) * 1000,
              ttl |-> <<j % 4, j % 2, IF j % 3 = 0 THEN 128 ELSE 0, 0>>, d |-> [k |-> "opt", opts |-> Pick(OptSets, Digit(j, 11))]]

Msg(j) ==
  LET qr == Digit(j, 1) = 1
      nan == IF qr THEN Digit(j, 3) ELSE 0
      nns == IF qr THEN Digit(j, 4) ELSE 0
      shape == Pick(ARShapes, Digit(j, 5))
  IN [id |-> (j * 31) % 65536, word |-> (IF qr THEN 32768 ELSE 0) + ((j * 17) % 32768),
      q |-> [labels |-> Pick(QNames, Digit(j, 2)), type |-> Pick(<<1, 28, 15, 255, 41, 6>>, j), class |-> 1],      \* incl. type codes the library special-cases as records
      an |-> [n \in 1..nan |-> Rec0(j, n)],
      ns |-> [n \in 1..nns |-> Rec0(j, n + 2)],
      ar |-> [n \in 1..Len(shape) |-> IF shape[n] = 1 THEN OptRec(j) ELSE Rec0(j, n + 3)]]

\* (Offset + i * Stride) mod Size without leaving TLC's 32-bit integers (Size < 2^27): the stride is close to
\* Size / golden ratio and coprime with Size, so that even a handful of consecutive i spread over the whole
\* product and every coordinate (the last ones included: data names, EDNS options) varies from the start
RECURSIVE MulMod(_, _, _)
MulMod(a, b, m) == IF b = 0 THEN 0
                   ELSE LET h == MulMod(a, b \div 2, m)  d == (h + h) % m IN IF b % 2 = 1 THEN (d + a) % m ELSE d
Index(i) == ((Offset % Size) + MulMod(Stride % Size, i, Size)) % Size
Layout(j) == Pick(Layouts, Digit(j, 6))

VARIABLES i, done
Init == i \in 1..Count /\ done = 0
Next == /\ done = 0 /\ done' = 1 /\ i' = i
        /\ LET j == Index(i)  m == Msg(j)  p == Encode(m, Layout(j)) IN
           IF WellFormed(p) /\ Abstract(p) = m
           THEN PrintT("@@REPLAY|" \o ToJson([pkt |-> p]))
           ELSE PrintT("@@BADGEN|" \o ToString(i) \o "|" \o WhyNot(p))
ShowSize == PrintT(<<"SIZE", Size>>)
====
