"""Scenario generator for C13: structured records -> admissible texts (whitespace / case / trailing
dot variants) and systematically damaged texts.  The structured record travels with the text; the
expected wire form is computed by TLC (spec/Synth.tla), not here."""
import json
import random


def L(s):
    return [ord(c) for c in s]


def labels(namestr):
    return [L(x) for x in namestr.rstrip(".").split(".")] if namestr not in ("", ".") else []


def rec(owner, ty, ttl, names=(), fixed=(), txt=()):
    return {"n": labels(owner), "t": ty, "ttl": list(ttl.to_bytes(4, "big")), "names": [labels(n) for n in names],
            "fixed": list(fixed), "txt": list(txt)}


TYPES = {"A": 1, "NS": 2, "CNAME": 5, "SOA": 6, "PTR": 12, "MX": 15, "TXT": 16, "AAAA": 28, "DS": 43}
TTLS = [0, 1, 3600, 2 ** 31, 2 ** 32 - 1]
L62 = "l" * 62
L61 = "k" * 61
OWNERS = ["a.", "ex", "www.Example.COM.", "_srv._tcp.ex.", "a-b.c-d.", L62 + ".", "x." + L62, L61 + ".y.",
          ".".join(["m" * 62] * 4) + ".",                       # wire length 253
          ".".join(["n" * 50] * 4) + "." + "n" * 47]
MAXNAME = ".".join(["m" * 62] * 4) + "."          # wire length 253
LONG250 = ".".join(["o" * 61] * 4) + "."          # 4*62+1 = 249


def styles(rnd):
    """(leading, sep, trailing, upper-case keywords?)"""
    return [("", " ", "", False), ("  ", "\t", " ", True), ("\t", "  \t ", "\t\t", False), ("", "   ", "", True)]


def render(owner, ttl, ty, rdata_text, st, mixed=False):
    lead, sep, trail, up = st
    cls = "IN" if up else "in"
    tyt = ty if up else ty.lower()
    if mixed:
        cls, tyt = "iN", "".join(c.upper() if i % 2 else c.lower() for i, c in enumerate(ty))
    return "%s%s%s%d%s%s%s%s%s%s%s" % (lead, owner, sep, ttl, sep, cls, sep, tyt, sep, rdata_text, trail)


def ip4(b):
    return ".".join(str(x) for x in b)


def txt_escape(b):
    out = ""
    for x in b:
        if 32 <= x < 127 and x not in (34, 92):
            out += chr(x)
        else:
            out += "\\%03d" % x
    return out


def valid_cases(rnd, tier):
    """yields (text, record) for texts of the supported grammar"""
    out = []
    sts = styles(rnd)
    def add(owner, ttl, ty, rd_text, r, k):
        st = sts[k % len(sts)]
        out.append((render(owner, ttl, ty, rd_text, st, mixed=(k % 7 == 3)), r))
    k = 0
    for owner in OWNERS:
        for ttl in (TTLS if tier != "quick" else TTLS[::2] + [TTLS[-1]]):
            k += 1
            add(owner, ttl, "A", "192.0.2.%d" % (k % 256), rec(owner, 1, ttl, fixed=[192, 0, 2, k % 256]), k)
    for a in ([0, 0, 0, 0], [255, 255, 255, 255], [1, 2, 3, 4], [10, 0, 0, 1]):
        k += 1
        add("h.ex.", 60, "A", ip4(a), rec("h.ex.", 1, 60, fixed=a), k)
    for text, b in (("::", [0] * 16), ("::1", [0] * 15 + [1]), ("2001:db8::ff00:42:8329", [0x20, 1, 0xd, 0xb8, 0, 0, 0, 0, 0, 0, 0xff, 0, 0, 0x42, 0x83, 0x29]),
                    ("ffff:ffff:ffff:ffff:ffff:ffff:ffff:ffff", [255] * 16), ("1:2:3:4:5:6:7:8", [0, 1, 0, 2, 0, 3, 0, 4, 0, 5, 0, 6, 0, 7, 0, 8]),
                    ("FE80::A", [0xfe, 0x80] + [0] * 13 + [10])):
        for owner in OWNERS[:4]:
            k += 1
            add(owner, 7200, "AAAA", text, rec(owner, 28, 7200, fixed=b), k)
    targets = ["t.", "ns1.Example.com", "_x.y.", L62 + ".", "x." + L62, MAXNAME, LONG250, "a-1.b-2.c."]
    for ty in ("NS", "CNAME", "PTR"):
        for owner in (OWNERS if tier != "quick" else OWNERS[::3] + [MAXNAME]):
            for tg in targets:
                k += 1
                add(owner, TTLS[k % len(TTLS)], ty, tg, rec(owner, TYPES[ty], TTLS[k % len(TTLS)], names=[tg]), k)
    for pref in (0, 1, 10, 65535):
        for owner in (OWNERS[0], OWNERS[2], MAXNAME, LONG250):
            for tg in targets:
                k += 1
                add(owner, 300, "MX", "%d%s%s" % (pref, [" ", "\t", "  "][k % 3], tg), rec(owner, 15, 300, names=[tg], fixed=[pref >> 8, pref & 255]), k)
    soavals = [(1, 2, 3, 4, 5), (0, 0, 0, 0, 0), (2 ** 32 - 1,) * 5, (2024010101, 7200, 3600, 1209600, 300)]
    for owner in (OWNERS[0], OWNERS[2], MAXNAME):
        for n1 in (targets[0], targets[1], MAXNAME, LONG250):
            for n2 in (targets[0], "hostmaster.Example.com.", MAXNAME, LONG250):
                for vals in soavals[: (2 if tier == "quick" else 4)]:
                    k += 1
                    inner = [" ", "\t", "  "][k % 3].join(str(v) for v in vals)
                    form = ["%s %s (%s)", "%s\t%s ( %s )", "%s  %s(%s)"][k % 3] % (n1, n2, inner)
                    fixed = []
                    for v in vals:
                        fixed += list(v.to_bytes(4, "big"))
                    add(owner, 86400, "SOA", form, rec(owner, 6, 86400, names=[n1, n2], fixed=fixed), k)
    for n in (1, 2, 254, 255, 256, 257, 510, 511, 765, 1000, 3825):
        for owner in OWNERS[:3]:
            k += 1
            body = [97 + (i % 26) for i in range(n)]
            add(owner, 30, "TXT", '"%s"' % txt_escape(body), rec(owner, 16, 30, txt=body), k)
    # boundary values of two fields at once: the longest owners with the largest data of every type
    for owner in (MAXNAME, LONG250, OWNERS[2]):
        for n in (3570, 3571, 3700, 3825):
            k += 1
            body = [97 + (i % 26) for i in range(n)]
            add(owner, 2 ** 32 - 1, "TXT", '"%s"' % txt_escape(body), rec(owner, 16, 2 ** 32 - 1, txt=body), k)
        for dl in (48, 64, 512):
            k += 1
            dig = [(i * 11 + dl) % 256 for i in range(dl)]
            add(owner, 0, "DS", "65535 255 255 %s" % "".join("%02X" % x for x in dig), rec(owner, 43, 0, fixed=[255, 255, 255, 255] + dig), k)
        k += 1
        add(owner, 2 ** 32 - 1, "AAAA", "ffff:ffff:ffff:ffff:ffff:ffff:ffff:ffff", rec(owner, 28, 2 ** 32 - 1, fixed=[255] * 16), k)
    for body in ([0], [255], [34], [92], [32, 32], [9], [127, 128], L("v=spf1 -all"), [0, 1, 2, 34, 92, 200, 255] * 40):
        k += 1
        add("t.ex.", 30, "TXT", '"%s"' % txt_escape(body), rec("t.ex.", 16, 30, txt=body), k)
    for tag in (0, 1, 65535):
        for alg in (0, 8, 255):
            for dl in (1, 20, 32, 48):
                k += 1
                dig = [(i * 7 + tag) % 256 for i in range(dl)]
                hexs = "".join("%02x" % x for x in dig)
                if k % 2:
                    hexs = hexs.upper()
                add("ds.ex.", 3600, "DS", "%d %d %d %s" % (tag, alg, k % 256, hexs), rec("ds.ex.", 43, 3600, fixed=[tag >> 8, tag & 255, alg, k % 256] + dig), k)
    return out


def damaged_cases(rnd):
    """texts the grammar excludes: (text)"""
    base = {
        "A": "h.ex. 60 IN A 1.2.3.4", "AAAA": "h.ex. 60 IN AAAA ::1", "NS": "ex. 60 IN NS ns.ex.", "CNAME": "w.ex. 60 IN CNAME t.ex.",
        "PTR": "4.3.2.1.in-addr.arpa. 60 IN PTR h.ex.", "MX": "ex. 60 IN MX 10 mx.ex.", "TXT": "ex. 60 IN TXT \"hello\"",
        "SOA": "ex. 60 IN SOA ns.ex. root.ex. (1 2 3 4 5)", "DS": "ex. 60 IN DS 12345 8 2 abcdef",
    }
    out = []
    for ty, t in base.items():
        f = t.split(" ")
        out.append(" ".join(f[:1] + f[2:]))                    # TTL missing
        out.append(" ".join(f[:2] + f[3:]))                    # class missing
        out.append(" ".join(f[:3] + f[4:]))                    # type missing
        out.append(" ".join(f[:4]))                            # data missing
        out.append(" ".join(f[1:]))                            # owner missing
        out.append(t + " extra")                               # surplus field
        out.append(t.replace(" 60 ", " 4294967296 "))          # TTL out of range
        out.append(t.replace(" 60 ", " -1 "))
        out.append(t.replace(" 60 ", " 6x "))
        out.append(t.replace(" IN ", " CH "))                  # other class
        out.append(t.replace(" IN ", " "))
        out.append(t.replace(" %s " % ty, " %sX " % ty) if " %s " % ty in t else t + "#")   # unknown type
        out.append(t.replace("ex.", "e..x.", 1))               # empty interior label
        out.append(t.replace("ex.", "x" * 64 + ".", 1))        # 64-byte label
        out.append(t.replace("ex.", "-ex.", 1) if ty != "PTR" else "-a. 60 IN PTR h.ex.")   # label starting with '-'
        out.append(t.replace("ex.", "e x.", 1))
    out += ["h.ex. 60 IN A 1.2.3", "h.ex. 60 IN A 1.2.3.4.5", "h.ex. 60 IN A 1.2.3.256", "h.ex. 60 IN A 1.2.3.-4", "h.ex. 60 IN A a.b.c.d", "h.ex. 60 IN A 1..2.3",
            "h.ex. 60 IN AAAA :::", "h.ex. 60 IN AAAA 1:2:3:4:5:6:7:8:9", "h.ex. 60 IN AAAA 12345::", "h.ex. 60 IN AAAA ::g", "h.ex. 60 IN AAAA 1.2.3.4",
            "ex. 60 IN MX 65536 mx.ex.", "ex. 60 IN MX mx.ex.", "ex. 60 IN MX 10", "ex. 60 IN MX -1 mx.ex.", "ex. 60 IN MX 10 mx..ex.",
            'ex. 60 IN TXT "unbalanced', 'ex. 60 IN TXT unquoted', 'ex. 60 IN TXT ""', 'ex. 60 IN TXT "a\\25"', 'ex. 60 IN TXT "a\\256b"', 'ex. 60 IN TXT "a" "b"',
            'ex. 60 IN TXT "' + "a" * 3826 + '"',
            "ex. 60 IN SOA ns.ex. root.ex. (1 2 3 4)", "ex. 60 IN SOA ns.ex. root.ex. (1 2 3 4 5 6)", "ex. 60 IN SOA ns.ex. root.ex. 1 2 3 4 5", "ex. 60 IN SOA ns.ex. (1 2 3 4 5)",
            "ex. 60 IN SOA ns.ex. root.ex. (1 2 3 4 4294967296)", "ex. 60 IN SOA ns.ex. root.ex. (1 2 3 4 5", "ex. 60 IN SOA ns.ex. root.ex. (a b c d e)",
            "ex. 60 IN DS 12345 8 2 abc", "ex. 60 IN DS 12345 8 2 a", "ex. 60 IN DS 12345 8 2 abcdeg", "ex. 60 IN DS 65536 8 2 abcd", "ex. 60 IN DS 1 256 2 abcd", "ex. 60 IN DS 1 8 256 abcd",
            "ex. 60 IN DS 1 8 2", "ex. 60 IN DS 1 8 abcd", "ex. 60 IN DS 12345 8 2 " + "a" * 41,
            "", " ", "\t", "ex.", "ex. 60", "ex. 60 IN", "ex. 60 IN A", "60 IN A 1.2.3.4", ". 60 IN A 1.2.3.4 5"]
    return out


def arbitrary_cases(rnd, n):
    toks = ["ex.", "a", "60", "IN", "in", "A", "AAAA", "NS", "MX", "TXT", "SOA", "DS", "CNAME", "PTR", "1.2.3.4", "::1", "\"", "\"x\"", "(", ")", "10", "abcdef", "abc",
            "\\", "\\000", "\\999", ".", "..", "-", "_", "4294967295", "4294967296", "99999999999999999999", " ", "\t", "\n", "\r", "\0", "\x7f", "é", "\xff", "x" * 70, "1" * 40]
    out = []
    for i in range(n):
        k = rnd.random()
        if k < 0.5:
            s = "".join(rnd.choice(toks) + rnd.choice([" ", " ", "\t", ""]) for _ in range(rnd.randint(0, 12)))
            out.append(list(s.encode("utf-8", "replace")))
        elif k < 0.8:
            # mutate a valid text
            base = rnd.choice(["h.ex. 60 IN A 1.2.3.4", "ex. 60 IN MX 10 mx.ex.", "ex. 60 IN TXT \"hello\"", "ex. 60 IN SOA ns.ex. root.ex. (1 2 3 4 5)", "ex. 60 IN DS 12345 8 2 abcdef", "h.ex. 60 IN AAAA 2001:db8::1"])
            b = list(base.encode())
            for _ in range(rnd.randint(1, 3)):
                j = rnd.randrange(len(b) + 1)
                r = rnd.random()
                if r < 0.4 and b:
                    b[min(j, len(b) - 1)] = rnd.randrange(256)
                elif r < 0.7:
                    b.insert(j, rnd.choice([32, 9, 34, 92, 46, 40, 41, 48, 58, 0, 255]))
                elif b:
                    del b[min(j, len(b) - 1)]
            out.append(b)
        else:
            out.append([rnd.randrange(256) for _ in range(rnd.randint(0, 60))])
    return out


def mixed_cases(rnd, n):
    """texts assembled field by field from pools of valid, boundary and invalid spellings with random horizontal
    whitespace and keyword case; what each denotes (or that it is excluded) is decided by spec/TextGrammar.tla"""
    owners = ["ex.", "h.ex", ".", "_srv._tcp.ex.", "a-b.c-d.", "1a.2b.", "x" * 62 + ".ex.", "A.B.C.D.E.F.", "xn--bcher-kva.ex.", "a..b.", "x" * 64 + ".", "a!b.", "a_b.ex.", "-a.ex.", "1.2.", "ex..",
              ".".join(["y" * 62] * 3 + ["z" * 60]) + ".", ".".join(["y" * 62] * 3 + ["z" * 61]) + ".", ".".join(["y" * 62] * 4) + "."]
    pad = lambda v: ["0" * k + v for k in (1, 5, 18, 19, 20, 40)]          # a number stays the same number behind any count of zeros
    ttls = ["0", "1", "60", "007", "2147483647", "2147483648", "4294967295"] + pad("3600") + pad("4294967295")[3:] + ["4294967296", "42949672950", "99999999999999999999", "", "6x", "-1", "+1", "0x10", "1.5"] + pad("4294967296")[3:]
    classes = ["IN", "in", "In", "iN", "CH", "INN", "I", "1"]
    hosts = ["ns.ex.", "ns.ex", ".", "a.b.c.d.e.f.g.", "MiXeD.Ex.", "x" * 62 + ".", "x" * 63 + ".", "a..b", "bad!", "_dmarc.ex.", "9.ex.", "ex.9"]
    v4 = ["1.2.3.4", "0" * 20 + "1.2.3.4", "1.2.3." + "0" * 30 + "4", "0.0.0.0", "255.255.255.255", "256.1.1.1", "1.2.3", "1.2.3.4.5", "01.002.3.4", "1.2.3.", ".1.2.3", "1.2.3.a", "1..2.3", "0001.2.3.4", "1.2.3.4x"]
    v6 = ["::", "::1", "1::", "2001:db8::1", "1:2:3:4:5:6:7:8", "1:2:3:4:5:6:7::", "::2:3:4:5:6:7:8", "1:2:3:4::5:6:7:8", "1:2:3:4:5:6:7", "1:2:3:4:5:6:7:8:9", "1::2::3", ":::", ":1", "1:", "12345::",
          "FFFF:ffff::AbCd", "::ffff:1.2.3.4", "g::1", "0:0:0:0:0:0:0:0", "::0:0:0:0:0:0:0", "1:2:3:4:5:6:7:8::"]
    txts = ['"a"', '"hello world"', '"a\\065b"', '"\\000\\255"', '"\\256"', '"\\25"', '"\\2a5"', '"\\"', '"a\\"b"', '"a" "b"', '"a"b', 'a', '"a', 'a"', '""', '"' + "q" * 255 + '"', '"' + "q" * 256 + '"', '"\t"', '"tab\there"', '" lead and trail "']
    nums16 = ["0", "10", "65535", "65536", "00010", "", "x", "-1"] + pad("65535")[2:] + pad("65536")[4:]
    nums8 = ["0", "8", "255", "256", "008", "x"] + pad("255")[2:] + pad("256")[4:]
    hexes = ["ab", "ABCDEF01", "abc", "a", "", "abcg", "00" * 20, "0" * 63]
    soan = ["1", "0", "4294967295", "4294967296", "x", "007"] + pad("7")[2:]
    kw = {"A": v4, "AAAA": v6, "NS": hosts, "CNAME": hosts, "PTR": hosts, "TXT": txts}

    def ws(minimum=1):
        return "".join(rnd.choice(" \t") for _ in range(rnd.randint(minimum, minimum + 2)))

    def case(k):
        return "".join(c.lower() if rnd.random() < 0.4 else c for c in k)

    out = []
    for _ in range(n):
        ty = rnd.choice(["A", "AAAA", "NS", "CNAME", "PTR", "TXT", "MX", "SOA", "DS", "SRV", "AA", "TYPE1"])
        if ty in kw:
            rd = rnd.choice(kw[ty])
        elif ty == "MX":
            rd = rnd.choice(nums16) + ws() + rnd.choice(hosts) if rnd.random() < 0.9 else rnd.choice(hosts)
        elif ty == "SOA":
            body = (ws(0) + ws().join(rnd.choice(soan) if rnd.random() < 0.2 else str(rnd.randrange(1000)) for _ in range(rnd.choice([5, 5, 5, 4, 6]))) + ws(0))
            rd = rnd.choice(hosts) + ws() + rnd.choice(hosts) + ws(0) + rnd.choice(["(", "(", "(", ""]) + body + rnd.choice([")", ")", ")", ""])
        elif ty == "DS":
            rd = ws().join([rnd.choice(nums16), rnd.choice(nums8), rnd.choice(nums8), rnd.choice(hexes)][: rnd.choice([4, 4, 4, 3])])
        else:
            rd = "1.2.3.4"
        good_bias = rnd.random() < 0.6          # most texts differ from a valid one in at most a field or two
        owner = rnd.choice(owners[:9]) if good_bias else rnd.choice(owners)
        ttl = rnd.choice(ttls[:16]) if good_bias else rnd.choice(ttls)
        cls = rnd.choice(classes[:4]) if good_bias else rnd.choice(classes)
        t = ws(0) + owner + ws() + ttl + ws() + cls + ws() + case(ty) + ws() + rd + ws(0)
        if rnd.random() < 0.05:
            t += rnd.choice(["x", " extra", "\n", ";"])
        out.append(list(t.encode()))
    return out


EMPTY_REC = {"n": [], "t": 0, "ttl": [0, 0, 0, 0], "names": [], "fixed": [], "txt": []}


def scenarios(seed, tier):
    rnd = random.Random(seed)
    out = []
    for text, r in valid_cases(rnd, tier):
        out.append(json.dumps({"do": "synth", "text": list(text.encode()), "expect": "ok", "rec": r}, separators=(",", ":")))
    for text in damaged_cases(rnd):
        out.append(json.dumps({"do": "synth", "text": list(text.encode()), "expect": "err", "rec": EMPTY_REC}, separators=(",", ":")))
    for b in arbitrary_cases(rnd, 3000 if tier == "quick" else 250000):
        out.append(json.dumps({"do": "synth", "text": b, "expect": "any", "rec": EMPTY_REC}, separators=(",", ":")))
    for b in mixed_cases(rnd, 3000 if tier == "quick" else 250000):
        out.append(json.dumps({"do": "synth", "text": b, "expect": "any", "rec": EMPTY_REC}, separators=(",", ":")))
    return out
