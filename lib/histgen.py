"""Scenario alphabet for mutation histories (C08-C11, C15): base packets, operations with argument
menus, and the structured form of every record text the histories insert (so that TLC never has to
parse text: the event carries the record the text denotes)."""
import json
import random


def L(s):
    return [ord(c) for c in s]


def name(*labels):
    out = []
    for l in labels:
        out += [len(l)] + L(l)
    return out + [0]


def hdr(idv, flags, qd, an, ns, ar):
    return [idv >> 8, idv & 255, flags >> 8, flags & 255, qd >> 8, qd & 255, an >> 8, an & 255, ns >> 8, ns & 255, ar >> 8, ar & 255]


def rr(owner, ty, ttl, rdata, cls=1):
    return owner + [ty >> 8, ty & 255, cls >> 8, cls & 255] + list(ttl.to_bytes(4, "big")) + [len(rdata) >> 8, len(rdata) & 255] + rdata


def ptr(o):
    return [0xC0 | (o >> 8), o & 255]


def opt(opts=(), xrcode=0, ver=0, xfl=0x8000, payload=1232):
    rd = []
    for code, data in opts:
        rd += [code >> 8, code & 255, len(data) >> 8, len(data) & 255] + list(data)
    return [0, 0, 41, payload >> 8, payload & 255, xrcode, ver, xfl >> 8, xfl & 255, len(rd) >> 8, len(rd) & 255] + rd


def base_packets():
    """Accepted packets: compressed and pointer-free, OPT absent / first / middle / last, every
    name-bearing type, a query, a lone question."""
    q = name("q", "ex") + [0, 1, 0, 1]     # question at 12: q.ex.  (offset of "ex" = 14)
    P = []
    # 0: response, two answers with pointer owners, OPT last
    P.append(hdr(1, 0x8180, 1, 2, 0, 1) + q + rr(ptr(12), 1, 60, [1, 2, 3, 4]) + rr([1, 120] + ptr(12), 1, 9, [4, 3, 2, 1]) + opt())
    # 1: pointer-free, all three sections, OPT in the middle with two options
    P.append(hdr(2, 0x8400, 1, 1, 1, 3) + q + rr(name("q", "ex"), 5, 300, name("w", "ex")) + rr(name("ex"), 2, 86400, name("ns", "ex"))
             + rr(name("ns", "ex"), 1, 5, [9, 9, 9, 9]) + opt([(8, [0, 1, 24, 0, 10, 0, 0]), (10, [])], xfl=0) + rr(name("ns", "ex"), 28, 5, [0] * 15 + [1]))
    # 2: compressed, MX + SOA + NS with pointers into data names, OPT first
    an1 = rr(ptr(12), 15, 7, [0, 10] + [2, 109, 120] + ptr(14))                  # MX 10 mx.ex.
    off_mx_name = 12 + len(q) + 2 + 10 + 2
    ns1 = rr(ptr(14), 6, 3600, ptr(off_mx_name) + [4, 104, 111, 115, 116] + ptr(14) + [0] * 16 + [0, 0, 0, 5])
    P.append(hdr(3, 0x8180, 1, 1, 1, 2) + q + an1 + ns1 + opt([(12, [0, 0])]) + rr(ptr(off_mx_name), 1, 1, [7, 7, 7, 7]))
    # 3: query with OPT only (DO set)
    P.append(hdr(4, 0x0100, 1, 0, 0, 1) + q + opt())
    # 4: response without OPT, mixed-case names, TXT and an unknown type
    P.append(hdr(5, 0x8180, 1, 2, 0, 1) + name("Q", "eX") + [0, 16, 0, 1] + rr(ptr(12), 16, 30, [2, 104, 105]) + rr(name("q", "EX"), 999, 30, [1, 2, 3]) + rr(ptr(14), 1, 30, [5, 6, 7, 8]))
    # 5: lone question
    P.append(hdr(6, 0x8000, 1, 0, 0, 0) + q)
    # 6: single answer (first/last/only record of its section), root question
    P.append(hdr(7, 0x8180, 1, 1, 0, 0) + [0, 0, 1, 0, 1] + rr([0], 1, 1, [1, 1, 1, 1]))
    # 8 (appended below): records that point at names of earlier records of their own section
    # 7: OPT first then two records that share a suffix, DNAME in authority
    P.append(hdr(8, 0x8180, 1, 0, 1, 3) + q + rr(ptr(14), 39, 10, name("d", "ex")) + opt([(8, [0, 1, 24, 0, 192, 0, 2])]) + rr([1, 97] + ptr(14), 1, 2, [1, 0, 0, 1]) + rr([1, 98] + ptr(14), 28, 2, [0] * 16))
    base = 12 + len(q)
    an_a = rr(name("sip", "ex"), 1, 11, [1, 1, 1, 1])
    an_b = rr(ptr(base), 28, 12, [0] * 15 + [1])
    ar0 = base + len(an_a) + len(an_b)
    ar_a = rr(name("glue", "ex"), 1, 21, [2, 2, 2, 2])
    ar_b = rr(ptr(ar0), 28, 22, [0] * 15 + [2])
    ar_c = rr([1, 119] + ptr(ar0), 1, 23, [3, 3, 3, 3])
    P.append(hdr(9, 0x8180, 1, 2, 0, 4) + q + an_a + an_b + ar_a + ar_b + opt([(10, [1, 2, 3, 4, 5, 6, 7, 8]), (12, []), (3, [0xAA])]) + ar_c)
    # 9: the question asks for type 41 (the code of the OPT pseudo-record) and an OPT record with an option is present
    P.append(hdr(10, 0x8180, 1, 1, 0, 2) + name("q", "ex") + [0, 41, 0, 1] + rr(ptr(12), 1, 30, [7, 7, 7, 7]) + rr(name("g", "ex"), 28, 31, [0] * 10 + [255, 255, 192, 0, 2, 1]) + opt([(10, [9, 9])]))
    # 10: a query whose question name is a pointer to offset 0: the id 0x0161 and the zero flag word spell the name "a."
    P.append([0x01, 0x61, 0x00, 0x00, 0, 1, 0, 0, 0, 0, 0, 1, 0xC0, 0x00, 0, 1, 0, 1] + opt([(10, [1])]))
    # 11: a literal label followed by a pointer into the header ("www" + pointer to offset 0)
    P.append([0x01, 0x61, 0x00, 0x00, 0, 1, 0, 0, 0, 0, 0, 1, 3, 119, 119, 119, 0xC0, 0x00, 0, 1, 0, 1] + opt([(10, [1])]))
    # 12: two pointers inside the header: the question points at offset 3, where the low flag byte 0xc0 and the high
    # byte of QDCOUNT read as a pointer to offset 0
    P.append([0x01, 0x61, 0x00, 0xC0, 0, 1, 0, 0, 0, 0, 0, 1, 0xC0, 0x03, 0, 1, 0, 1] + opt([(10, [1])]))
    return P


def struct_rec(labels, ty, ttl, names=(), fixed=(), cls=1):
    return {"n": [L(x) for x in labels], "t": ty, "c": cls, "ttl": list(ttl.to_bytes(4, "big")),
            "names": [[L(x) for x in n] for n in names], "fixed": list(fixed)}


BIGTXT = 3000


def record_menu():
    """(text, structured record | None for malformed text)"""
    big = "big. 1 IN TXT \"" + "a" * BIGTXT + "\""
    chunks = []
    left = BIGTXT
    while left > 0:
        k = min(255, left)
        chunks += [k] + [97] * k
        left -= k
    return [
        ("x.a. 5 IN A 1.1.1.1", struct_rec(["x", "a"], 1, 5, fixed=[1, 1, 1, 1])),
        ("ac.d. 77 IN NS ns.ac.d.", struct_rec(["ac", "d"], 2, 77, names=[["ns", "ac", "d"]])),
        ("q.ex. 9 IN MX 5 m.ex.", struct_rec(["q", "ex"], 15, 9, names=[["m", "ex"]], fixed=[0, 5])),
        ("zz. 1 IN TXT \"hi\"", struct_rec(["zz"], 16, 1, fixed=[2, 104, 105])),
        ("ex. 3 IN SOA n.ex. h.ex. (1 2 3 4 5)", struct_rec(["ex"], 6, 3, names=[["n", "ex"], ["h", "ex"]],
                                                             fixed=[0, 0, 0, 1, 0, 0, 0, 2, 0, 0, 0, 3, 0, 0, 0, 4, 0, 0, 0, 5])),
        ("y.y. 4 IN AAAA ::2", struct_rec(["y", "y"], 28, 4, fixed=[0] * 15 + [2])),
        ("Q.EX. 8 IN CNAME Q.ex.", struct_rec(["Q", "EX"], 5, 8, names=[["Q", "ex"]])),
        (big, struct_rec(["big"], 16, 1, fixed=chunks)),
        ("bad text", None),
        ("a. 1 IN A 1.2.3", None),
        ("a. 1 IN MX 70000 m.", None),
        ("", None),
    ]


def op_insert(sec, i):
    text, rec = record_menu()[i]
    return {"op": "insert", "sec": sec, "text": text,
            "rec": {"bad": rec is None, "r": rec if rec is not None else struct_rec([], 0, 0)}}


def padded(op, k):
    """the same insertion, its text written with k blanks (spaces and tabs) wherever the compact text has one"""
    o = dict(op)
    o["text"] = (" " * (k // 2) + "\t" * (k - k // 2)).join(op["text"].split(" "))
    return o


CLASSES = {"IN": 1, "CH": 3, "HS": 4, "NONE": 254, "ANY": 255}
TYPES = {"A": 1, "TXT": 16, "OPT": 41}


def raw_menu():
    """records built field by field with RR::new (presentation owner, type, class, ttl, data): the OPT
    pseudo-record among them (class = advertised payload, ttl = extended rcode / version / flags)"""
    return [
        (".", "OPT", "ANY", 0x01008000, [0, 10, 0, 2, 7, 7]),       # one option, DO set, extended rcode 1
        (".", "OPT", "HS", 0x00010000, []),                          # no option, version 1
        (".", "OPT", "ANY", 0, [0, 3, 0, 0, 0, 8, 0, 1, 9]),         # two options
        (".", "OPT", "ANY", 0, [0, 10, 0, 9, 1]),                    # option length overruns the data
        (".", "OPT", "ANY", 0, [0, 10, 0, 1, 7, 0, 8, 0, 0, 0, 12, 0, 9, 1]),   # two good options, then one that overruns
        (".", "OPT", "ANY", 0, [0, 10, 0]),                          # truncated option header
        ("x.", "OPT", "ANY", 0, []),                                 # OPT not owned by the root
        ("r.a.", "A", "CH", 7, [4, 3, 2, 1]),
        ("t.", "TXT", "IN", 0xFFFFFFFF, [1, 65, 0]),
    ]


def op_insert_raw(sec, i):
    owner, ty, cls, ttl, rdata = raw_menu()[i]
    labels = [x for x in owner.split(".") if x]
    return {"op": "insert", "sec": sec, "text": "",
            "raw": {"name": L(owner), "type": ty, "class": cls, "ttl": list(ttl.to_bytes(4, "big")), "rdata": rdata},
            "rec": {"bad": False, "r": struct_rec(labels, TYPES[ty], ttl, fixed=rdata, cls=CLASSES[cls])}}


NAME_ARGS = [
    name("a"), name("xYz", "fr"), [0], name("ac", "d"), name("q" * 40, "q" * 40, "q" * 40), name("q", "ex"),
    [1, 46, 0], [64] + [97] * 64 + [0], [1, 97], [1, 97, 0, 9, 9], [1, 92, 0], [2, 97, 7, 0], name("w" * 63, "x" * 63, "y" * 63, "z" * 61),
]
RENAME_NAMES = [name("ex"), name("q", "ex"), name("a"), name("EX"), name("x"), name("m", "ex"), name("z" * 60, "z" * 60, "z" * 60, "z" * 60), name("net"), name("w", "ex")]


def cursor_op(sec, incl, adv, subs):
    return {"op": "cursor", "sec": sec, "incl": incl, "adv": adv, "subs": [{"s": s, "arg": a} for s, a in subs]}


def sub_menu():
    m = [("set_raw_name", a) for a in NAME_ARGS]
    m += [("delete", []), ("uncompress", []), ("set_ttl", [222, 173, 190, 239]), ("set_ttl", [0, 0, 0, 0]),
          ("set_ip", [9, 8, 7, 6]), ("set_ip", [0] * 15 + [9]), ("next", [])]
    return m


def simple_ops():
    ops = [{"op": "set_tid", "v": 0xBEEF}, {"op": "set_flags", "lo": 0x0020, "hi": 0}, {"op": "set_flags", "lo": 0xFFFF, "hi": 0xFFFF},
           {"op": "set_flags", "lo": 0, "hi": 0}, {"op": "set_rcode", "v": 3}, {"op": "set_rcode", "v": 0xFF}, {"op": "set_opcode", "v": 5},
           {"op": "set_response", "v": True}, {"op": "set_response", "v": False}, {"op": "read_question"}, {"op": "recompute"}]
    for sec in ("AN", "NS", "AR"):
        for i in range(len(record_menu())):
            ops.append(op_insert(sec, i))
        for i in range(len(raw_menu())):
            ops.append(op_insert_raw(sec, i))
    for nm in ("nq.x", "a", "q.ex"):
        ops.append({"op": "insert_q", "name": L(nm), "labels": [L(x) for x in nm.split(".")]})
    for t in RENAME_NAMES[:6]:
        for s in RENAME_NAMES[:5]:
            for sfx in (True, False):
                ops.append({"op": "rename", "target": t, "source": s, "suffix": sfx})
    ops.append({"op": "rename", "target": RENAME_NAMES[6], "source": name("ex"), "suffix": True})
    return ops


def cursor_ops():
    ops = []
    # readers of the EDNS options (pseudo-section "E"): advance, decompress in place through them
    for adv in range(0, 3):
        for subs in ([("uncompress", []), ("next", [])], [("next", []), ("uncompress", []), ("next", [])], [("uncompress", []), ("uncompress", []), ("next", []), ("next", [])],
                     [("set_raw_name", name("a")), ("delete", []), ("set_ttl", [0, 0, 0, 1]), ("next", [])]):
            ops.append(cursor_op("E", False, adv, subs))
    for sec, incl in (("Q", False), ("AN", False), ("NS", False), ("AR", False), ("AR", True)):
        for adv in range(0, 3):
            for s, a in sub_menu():
                ops.append(cursor_op(sec, incl, adv, [(s, a), ("next", [])]))
            ops.append(cursor_op(sec, incl, adv, [("delete", []), ("delete", []), ("next", [])]))
            ops.append(cursor_op(sec, incl, adv, [("set_raw_name", name("a")), ("set_raw_name", name("longer", "name", "here")), ("delete", [])]))
            ops.append(cursor_op(sec, incl, adv, [("uncompress", []), ("set_raw_name", name("xYz", "fr")), ("next", []), ("delete", [])]))
    return ops


def scen(pkt, ops, synth=None):
    d = {"do": "hist", "ops": ops}
    if synth is not None:
        d["synth"] = synth
    else:
        d["pkt"] = pkt
    return json.dumps(d, separators=(",", ":"))


def random_history(rnd, n):
    so, co = simple_ops(), cursor_ops()
    ops = []
    for _ in range(n):
        r = rnd.random()
        if r < 0.45:
            ops.append(rnd.choice(so))
        elif r < 0.9:
            ops.append(rnd.choice(co))
        else:
            sec, incl = rnd.choice([("Q", False), ("AN", False), ("NS", False), ("AR", False), ("AR", True)])
            subs = [rnd.choice(sub_menu()) for _ in range(rnd.randint(1, 5))]
            ops.append(cursor_op(sec, incl, rnd.randint(0, 3), subs))
    return ops


def histories(seed, tier, extra_packets=()):
    rnd = random.Random(seed)
    bases = base_packets() + [json.loads(l)["pkt"] for l in extra_packets]
    out = []
    so, co = simple_ops(), cursor_ops()
    # every single operation on every base packet (and on the two synthesised packets)
    for b in bases[:13]:
        for o in so + co:
            out.append(scen(b, [o]))
    for syn in ("empty", "example.com"):
        for o in so + co[::7]:
            out.append(scen(None, [o], synth=syn))
    # pairs: a state-changing first operation followed by every (sampled) second one
    firsts = [{"op": "set_response", "v": False}, {"op": "read_question"}, {"op": "recompute"}, op_insert("AN", 0), op_insert("NS", 2), op_insert("AR", 5),
              {"op": "rename", "target": name("net"), "source": name("ex"), "suffix": True},
              cursor_op("Q", False, 0, [("delete", [])]), cursor_op("Q", False, 0, [("set_raw_name", name("xYz", "fr"))]),
              cursor_op("AN", False, 0, [("set_raw_name", name("xYz", "fr"))]), cursor_op("AR", True, 0, [("delete", [])]),
              cursor_op("AR", True, 1, [("delete", [])]), cursor_op("AN", False, 0, [("uncompress", [])]), cursor_op("AN", False, 0, [("delete", [])]),
              cursor_op("AR", True, 0, [("set_ttl", [1, 2, 128, 0])]), cursor_op("AR", True, 1, [("set_raw_name", name("a"))])]
    step = 3 if tier == "quick" else 1
    for bi, b in enumerate(bases[:13]):
        for fi, f in enumerate(firsts):
            seconds = (so + co)[(bi + fi) % step::step]
            if tier == "quick":
                seconds = seconds[::4]
            for s2 in seconds:
                out.append(scen(b, [f, s2]))
    # a question name written through a pointer into the header (base 10): header setters whose new value keeps the
    # name a name, around the question getters that fill the cache
    for hp in bases[10:13]:
        for setter in ({"op": "set_tid", "v": 0x0162}, {"op": "set_tid", "v": 0x0141}, {"op": "set_tid", "v": 0x0161}):
            out.append(scen(hp, [{"op": "read_question"}, setter, {"op": "read_question"}]))
            out.append(scen(hp, [setter, {"op": "read_question"}, {"op": "recompute"}, {"op": "read_question"}]))
            out.append(scen(hp, [{"op": "read_question"}, setter, op_insert("AR", 0), {"op": "read_question"}]))
    # a record whose data name is compressed against its *own* owner name (NS / CNAME / PTR / MX / SOA), as the last
    # record of the packet and followed by another one: the owner is set to names of the same, a smaller and a larger
    # length that differ in the labels the data name borrows
    sq = name("q", "ex") + [0, 1, 0, 1]
    o = 12 + len(sq)
    own = name("foo", "bar")                      # "bar" sits at o + 4
    datas = {2: [2, 110, 115] + ptr(o + 4), 5: [1, 99] + ptr(o + 4), 12: ptr(o + 4), 15: [0, 10, 2, 109, 120] + ptr(o + 4),
             6: ptr(o + 4) + [4, 104, 111, 115, 116] + ptr(o) + [0, 0, 0, 1] * 5}
    for ty, d in datas.items():
        for tail in ([], rr(ptr(12), 1, 4, [4, 4, 4, 4])):
            pkt = hdr(16, 0x8180, 1, 2 if tail else 1, 0, 0) + sq + rr(own, ty, 77, d) + tail
            for nm in (name("foo", "baz"), name("fox", "bar"), name("fo", "baz"), name("fooo", "baz"), name("FOO", "BAR")):
                out.append(scen(pkt, [cursor_op("AN", False, 0, [("set_raw_name", nm), ("next", [])]), {"op": "read_question"}]))
                out.append(scen(pkt, [{"op": "read_question"}, cursor_op("AN", False, 0, [("set_raw_name", nm), ("set_raw_name", own)])]))
    # arguments equal to the current value up to letter case: the question / an owner renamed to its own name in
    # another case, on a pointer-free object whose question cache is filled, then read back raw
    for b, qn, own in ((bases[0], name("Q", "eX"), name("q", "EX")), (bases[1], name("Q", "EX"), name("Q", "Ex"))):
        for sec, nm in (("Q", qn), ("AN", own)):
            out.append(scen(b, [{"op": "recompute"}, {"op": "read_question"}, cursor_op(sec, False, 0, [("set_raw_name", nm), ("next", [])]), {"op": "read_question"}]))
            out.append(scen(b, [{"op": "read_question"}, cursor_op(sec, False, 0, [("uncompress", []), ("set_raw_name", nm)]), {"op": "read_question"},
                                {"op": "rename", "target": name("EX"), "source": name("ex"), "suffix": True}, {"op": "read_question"}]))
    # a wide packet: 300 answers (indices and counts wider than a byte), edits at positions 254..257 and 299
    wq = name("w", "ex") + [0, 1, 0, 1]
    wrecs = []
    for i in range(300):
        wrecs += rr(ptr(12) if i % 2 else [1, 97 + i % 26] + ptr(12), 1, 2000 + i, [10, 2, i >> 8, i & 255])
    wide = hdr(12, 0x8180, 1, 300, 0, 1) + wq + wrecs + opt([(10, [5])])
    for adv in (254, 255, 256, 257, 299):
        out.append(scen(wide, [cursor_op("AN", False, adv, [("set_raw_name", name("longer", "name", "here")), ("next", []), ("delete", [])]), {"op": "read_question"}]))
        out.append(scen(wide, [cursor_op("AN", False, adv, [("delete", []), ("next", []), ("set_raw_name", name("a"))]), op_insert("AN", 0)]))
    # an edit that decompresses, then a rename whose output is longer / equal / shorter than its input (the renamer
    # compresses again), then edits and walks on the result
    for b in bases[:3] + bases[7:9]:
        for tgt in (name("a-much-longer-zone-name", "example", "net"), name("xe"), name("e")):
            ren = {"op": "rename", "target": tgt, "source": name("ex"), "suffix": True}
            out.append(scen(b, [op_insert("AN", 0), ren, cursor_op("AN", False, 0, [("delete", []), ("next", []), ("delete", [])]), {"op": "read_question"}]))
            out.append(scen(b, [cursor_op("AN", False, 0, [("uncompress", [])]), ren, cursor_op("AR", True, 0, [("set_raw_name", name("a")), ("next", [])]), op_insert("NS", 1)]))
    # size limit: fill up with big records from every starting size
    big = [i for i, (t, r) in enumerate(record_menu()) if t.startswith("big.")][0]
    for b in bases[:3]:
        out.append(scen(b, [op_insert("AN", big), op_insert("NS", big), op_insert("AR", big), op_insert("AN", big), op_insert("AR", 0), {"op": "read_question"}]))
    # long random histories
    nrand = 150 if tier == "quick" else 2000
    for i in range(nrand):
        b = rnd.choice(bases)
        out.append(scen(b, random_history(rnd, rnd.randint(3, 14))))
    for i in range(nrand // 5):
        out.append(scen(None, random_history(rnd, rnd.randint(3, 10)), synth=rnd.choice(["empty", "example.com", "a"])))
    return out


# ------------------------------------------------------------------------------------------------
# C11: sections of 0..n records, each with its own TTL, OPT at every position, compressed or not

def walk_packets(maxn, rnd=None):
    """yields (packet, section, list of ttl identities in wire order, index of OPT or None)"""
    out = []
    q = name("w", "ex") + [0, 1, 0, 1]
    for compressed in (False, True, "chain"):
        for sec in ("AN", "NS", "AR"):
            for n in range(0, maxn + 1):
                opt_positions = [None] + (list(range(n)) if sec == "AR" else [])
                for op in opt_positions:
                    recs, ids = [], []
                    prev_owner = None            # offset of the previous ordinary record's owner name (chain layout)
                    for i in range(n):
                        ttl = 100 + i
                        if op == i:
                            # OPT: its "TTL" field is ext-rcode/version/flags; version must stay 0..255, use flags for identity
                            ttl = (0 << 24) | (0 << 16) | (0x8000 + 100 + i)
                            r = [0, 0, 41, 4, 208] + list(ttl.to_bytes(4, "big")) + [0, 4, 0, 10, 0, 0]
                        else:
                            kind = i % 3
                            here = 12 + len(q) + len(recs)
                            if compressed == "chain":
                                # every owner hangs on the previous record of the same section
                                owner = name("sip", "ex") if prev_owner is None else ([ptr(prev_owner), [1, 97 + i] + ptr(prev_owner), ptr(prev_owner)][kind])
                                prev_owner = here
                            elif compressed:
                                owner = [ptr(12), [1, 97 + i] + ptr(14), ptr(12)][kind]
                            else:
                                owner = [name("w", "ex"), name(chr(97 + i), "ex"), name("w", "ex")][kind]
                            if kind == 2:
                                rd = (ptr(14) if compressed else name("ex"))
                                if compressed == "chain" and here > 12 + len(q):
                                    rd = ptr(here - 0) if False else ptr(14)
                                r = rr(owner, 2, ttl, rd)
                            else:
                                r = rr(owner, 1, ttl, [10, 0, 0, i])
                        recs += r
                        ids.append(list(ttl.to_bytes(4, "big")))
                    an, ns, ar = (n if sec == "AN" else 0), (n if sec == "NS" else 0), (n if sec == "AR" else 0)
                    # a neighbour section so that section offsets behind the walked one exist
                    extra_ar = [] if sec == "AR" else rr(name("z"), 1, 7, [7, 7, 7, 7])
                    pkt = hdr(9, 0x8180, 1, an, ns, ar + (0 if sec == "AR" else 1)) + q + recs + extra_ar
                    out.append((pkt, sec, ids, op))
                    if sec == "AR" and n >= 1:
                        # the same additional section in a query (QR clear: no answer or authority records allowed)
                        out.append((hdr(9, 0x0100, 1, 0, 0, ar) + q + recs, sec, ids, op))
    return out


def walks(tier):
    import itertools
    maxn = 4 if tier == "quick" else 7
    out = []
    for pkt, sec, ids, op in walk_packets(maxn):
        n = len(ids)
        for incl in ([False, True] if sec == "AR" else [False]):
            cand = [i for i in range(n) if incl or i != op]
            subsets = []
            for k in range(0, len(cand) + 1):
                subsets += list(itertools.combinations(cand, k))
            if tier == "quick" and n >= 4:
                subsets = subsets[::2] + [tuple(cand)]
            for k, D in enumerate(subsets):
                # every other walk starts from a pointer-free object whose question cache is filled
                prelude = ["recompute", "read_question"] if k % 2 else []
                out.append(json.dumps({"do": "walk", "pkt": pkt, "sec": sec, "incl": incl, "twice": True, "del_q": False, "prelude": prelude,
                                       "del": [ids[i] for i in D], "max_yields": (n + 2) * (n + 2)}, separators=(",", ":")))
    # the question section: delete it or not; compressed owners point at it
    for b in base_packets()[:6]:
        for dq in (False, True):
            for prelude in ([], ["recompute", "read_question"], ["read_question"]):
                out.append(json.dumps({"do": "walk", "pkt": b, "sec": "Q", "incl": False, "twice": True, "del_q": dq, "del": [], "prelude": prelude, "max_yields": 8}, separators=(",", ":")))
    return out


# ------------------------------------------------------------------------------------------------
# behaviours enumerated by TLC (spec/Gen_Hist.tla) mapped to concrete operations

SET_A = name("ac", "d")          # 6 bytes
SET_B = name("zz", "k")          # 6 bytes: after SET_A an equal-length change
SET_LONG = name("longer", "owner", "name", "ex")
ABSTRACT = {
    "read_question": lambda: {"op": "read_question"},
    "recompute": lambda: {"op": "recompute"},
    "clear_qr": lambda: {"op": "set_response", "v": False},
    "insert_an": lambda: op_insert("AN", 0),
    "insert_q": lambda: {"op": "insert_q", "name": L("nq.x"), "labels": [L("nq"), L("x")]},
    "rename": lambda: {"op": "rename", "target": name("net"), "source": name("ex"), "suffix": True},
    "q_setA": lambda: cursor_op("Q", False, 0, [("set_raw_name", SET_A)]),
    "q_setB": lambda: cursor_op("Q", False, 0, [("set_raw_name", SET_B)]),
    "q_delete": lambda: cursor_op("Q", False, 0, [("delete", [])]),
    "an_setA": lambda: cursor_op("AN", False, 0, [("set_raw_name", SET_A), ("next", [])]),
    "an_setLong": lambda: cursor_op("AN", False, 0, [("set_raw_name", SET_LONG), ("next", [])]),
    "an_delete": lambda: cursor_op("AN", False, 0, [("delete", []), ("next", [])]),
    "an_uncompress": lambda: cursor_op("AN", False, 0, [("uncompress", []), ("next", [])]),
    "opt_delete": lambda: cursor_op("AR", True, 0, [("delete", [])]),
    "ar1_setB": lambda: cursor_op("AR", True, 1, [("set_raw_name", SET_B)]),
    "opt_set_ttl": lambda: cursor_op("AR", True, 0, [("set_ttl", [1, 0, 128, 0])]),
}


def behaviour_bases():
    """two bases on which every abstract operation is meaningful: compressed, answers, OPT first
    in the additional section followed by a record"""
    q = name("q", "ex") + [0, 1, 0, 1]
    b1 = hdr(11, 0x8180, 1, 2, 0, 2) + q + rr(ptr(12), 1, 60, [1, 2, 3, 4]) + rr([1, 120] + ptr(12), 5, 9, ptr(14)) + opt([(10, [1, 2])]) + rr([2, 110, 115] + ptr(14), 1, 4, [8, 8, 8, 8])
    b2 = hdr(12, 0x8500, 1, 1, 1, 2) + q + rr(name("q", "ex"), 15, 60, [0, 5] + name("mx", "ex")) + rr(name("ex"), 2, 7, name("ns", "ex")) + opt() + rr(name("ns", "ex"), 28, 4, [0] * 15 + [3])
    return [b1, b2]


def behaviours(seqs, bases):
    out = []
    for b in bases:
        for s in seqs:
            out.append(scen(b, [ABSTRACT[o]() for o in s]))
    return out


# ------------------------------------------------------------------------------------------------
# C10: the size limit from every starting size

def size_limit_histories():
    """Packets whose decompressed size sits at 8192 - len(record) + {-1, 0, +1}, as compressed and
    as pointer-free wire images, and packets already larger than 8192 / 16384 bytes (as arrive
    over TCP); the history inserts one small record and reads the question."""
    out = []
    ins = op_insert("AN", 0)                 # x.a. 5 IN A 1.1.1.1 : 5 + 10 + 4 = 19 bytes
    rrlen = 19
    qn = name("q" * 60, "r" * 60, "s" * 60)          # 184 bytes
    q = qn + [0, 1, 0, 1]
    for compressed in (True, False):
        for d in (-1, 0, 1, 40):
            target = 8192 - rrlen + d          # wanted pointer-free size
            owner_wire = ptr(12) if compressed else qn
            recs = []
            usize = 12 + len(q)
            n = 0
            while usize + (len(qn) + 14) + (len(qn) + 10 + 1) <= target:
                recs += rr(owner_wire, 1, 50 + n, [1, 1, 1, n % 250])
                usize += len(qn) + 14
                n += 1
            # filler TXT sized so that the pointer-free size is exactly `target`
            fill = target - usize - (len(qn) + 10)
            recs += rr(owner_wire, 16, 3, [97] * fill)
            n += 1
            pkt = hdr(13, 0x8180, 1, n, 0, 0) + q + recs
            out.append(scen(pkt, [ins, {"op": "read_question"}, op_insert("AR", 3)]))
            # the same record written with long runs of blanks between its fields (the text is hundreds of characters
            # long, the wire record 19 bytes: what counts against the limit is the record, not its notation)
            for sec in ("AN", "NS", "AR"):
                out.append(scen(pkt, [padded(op_insert(sec, 0), 60 if sec == "AN" else 400), {"op": "read_question"}, op_insert("AR", 3)]))
            # the record that crosses the limit is an OPT pseudo-record (its summary must not outlive a refusal)
            out.append(scen(pkt, [op_insert_raw("AR", 0), {"op": "read_question"}, ins]))
            # the packet already carries an OPT record advertising a payload below / at / above the limit: the limit
            # of insert_rr is the uncompressed size, whatever the peer advertises
            for payload in (512, 8192, 8193, 16384, 65535):
                o11 = opt(payload=payload)
                # keep the pointer-free size at `target` by shortening the filler by the OPT record's 11 bytes
                recs2 = recs[:-11] if not compressed or True else recs
                pkt2 = hdr(13, 0x8180, 1, n, 0, 1) + q + recs2
                # fix the RDLENGTH of the (shortened) filler: it is the last record of `recs2`
                fill2 = fill - 11
                if fill2 > 0:
                    pkt2 = hdr(13, 0x8180, 1, n, 0, 1) + q + recs[: len(recs) - len(rr(owner_wire, 16, 3, [97] * fill))] + rr(owner_wire, 16, 3, [97] * fill2) + o11
                    out.append(scen(pkt2, [ins, {"op": "read_question"}, op_insert("NS", 0), op_insert("AR", 3)]))
    for total in (9000, 20000, 60000):
        recs, n = [], 0
        while 12 + len(q) + len(recs) + 260 < total:
            recs += rr(ptr(12), 16, 70 + n, [98] * 200)
            n += 1
        pkt = hdr(14, 0x8180, 1, n, 0, 0) + q + recs
        out.append(scen(pkt, [ins, op_insert("AR", 5), {"op": "read_question"}]))
    # the other size limit: a packet cannot grow beyond 65535 bytes.  Pointer-free packets a few bytes below it:
    # a name set through a cursor that fits exactly / is one byte too long, then reads and an edit that shrinks
    small_q = name("q") + [0, 1, 0, 1]
    for room in (9, 10, 11):
        body = 65535 - room - (12 + len(small_q)) - (3 + 10) - (3 + 10 + 4)
        pkt = hdr(15, 0x8180, 1, 2, 0, 0) + small_q + rr(name("a"), 16, 1, [99] * body) + rr(name("b"), 1, 2, [1, 2, 3, 4])
        assert len(pkt) == 65535 - room
        grow = cursor_op("AN", False, 1, [("set_raw_name", name("b" * 10)), ("set_raw_name", name("c" * 11)), ("next", [])])   # +10, then one more
        out.append(scen(pkt, [grow, {"op": "read_question"}, cursor_op("AN", False, 0, [("set_raw_name", name("z")), ("next", []), ("delete", [])])]))
    return out


def text_insert_histories():
    """C13's share of the near-limit histories: a record written with long runs of blanks, inserted through the
    text interface into packets whose decompressed size leaves room for exactly the record / one byte less /
    a little more."""
    return [h for h in size_limit_histories() if "\t" in json.loads(h)["ops"][0].get("text", "")]

