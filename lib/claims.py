"""What MANIFEST.json claims per property (source of bin/mkmanifest)."""

HOOK_COMMITS = ["3fb7366"]

TB = ("trusted: TLC and the TLA+ reading of the property in /verif/spec (written from the statement and the anchors, "
      "independent of the code); the Rust driver only performs calls and logs raw values, it contains no DNS decoder. ")

CLAIMS = {
    "C01": {
        "text": "TLC checks on the parser machine (spec/Parser.tla) that no byte access happens without a guard, that the cursor stays inside the buffer and that every run terminates, exhaustively over all short byte strings at scaled limits, over every stand-alone name check (any buffer, any offset, both walkers) and over token-assembled packets at the real limits; the real parser, the two public name checkers and the cursor primitives are then run on ~10^5 (quick) to ~10^6 (thorough) generated, mutated, truncated and adversarial inputs up to 70 000 bytes and every recorded outcome is validated by TLC (result or error, bytes unchanged, cursor in bounds, checker verdicts equal to the specification's readers). Panics, aborts and hangs of the code are recorded as events and rejected.",
        "design_ref": "DESIGN.md section 5, C01",
        "note": TB + "'Reads outside the buffer / overflows the stack' are decided through their observable form in safe Rust (panic, abort, watchdog); the parser has no unsafe code.",
        "technique": "TLC model checking of a TLA+ parser machine + TLC trace validation of recorded executions of the real parser",
    },
    "C02": {
        "text": "The policy is written twice in TLA+: declaratively (Wire!WhyNot, clause by clause from the property statement) and operationally (Parser, mirroring the code's control flow). TLC shows both agree on every enumerated packet (exhaustive byte strings at scaled limits, token-level packets with single faults at real limits). The real parser's verdict on every generated input is then validated by TLC against WhyNot in both directions; the evidence counts, per clause, the inputs that fail exactly that clause, and the check refuses to pass if a clause was never exercised.",
        "design_ref": "DESIGN.md section 5, C02",
        "note": TB + "Error kinds and the order in which clauses are tested are not compared.",
        "technique": "TLC refinement check between two TLA+ presentations of the policy + TLC trace validation of the real parser's verdicts (both directions)",
    },
    "C18": {
        "text": "The parser machine carries the same step counter as the cfg-guarded hook (one per name-walk iteration, option, record); TLC checks the bound steps*14 <= (2*(MaxRefs+(MaxName+1)/2)+1)*len + const as an invariant of the machine at several limit triples, and validates the hook's counter for every real parse, including families built to maximise pointer following (maximal names reached through 16-jump ladders by thousands of 14-byte records: measured 20.25 steps/byte against a bound of 20.64), uncapped ladders, pointer loops and dense option lists up to 65 535 bytes.",
        "design_ref": "DESIGN.md section 5, C18",
        "note": TB + "The counter is the hook's; a loop the hook does not instrument would not be seen (the name walkers, the option loop and the record loops are instrumented).",
        "technique": "TLC invariant on the TLA+ parser machine's step counter + TLC validation of hook-counted steps of the real parser against the specified linear bound",
    },
    "C03": {
        "text": "TLC model-checks the section cursor (spec/Readers.tla: start offset + records-left counter, OPT skipping) for all sections of up to 5 records with OPT at every position: in bounds, counter exact, yields exactly the expected records, terminates; the pinned tree's missing decrement is kept as a negative control that TLC must detect. Then, for every accepted packet among TLA+-born packets (Gen_S1: all name-bearing types, three pointer layouts, OPT first/middle/last/absent, 0..2 options), generated, boundary and repository packets, the six walks and every accessor value logged by the driver are validated by TLC against Message!Decode (offsets, lower-case name, raw name, type, class, TTL, data length, data, address, section, option extents, bytes untouched).",
        "design_ref": "DESIGN.md section 5, C03",
        "note": TB + "Accessors are compared on accepted packets only (rejected inputs are outside the statement).",
        "technique": "TLC model checking of a TLA+ cursor machine + TLC trace validation of every reader/accessor observation against the TLA+ decoder",
    },
    "C04": {
        "text": "TLC checks on all 65 536 flag words that the field view, the mask view and the arithmetic view of the header word coincide (spec/Header.tla); every getter of the real library (tid, opcode, rcode, QR, 32-bit flags, DNSSEC indicator, question in three forms asked before and after the cache is filled, EDNS version / extended rcode / option count / payload size, section and EDNS offsets) is validated by TLC against Message!Summary on every accepted packet of the C03 corpus and on a sweep of flag words over six base packets (quick: 4096 seeded + all one-hot / all-but-one words; thorough: all 65 536) with and without OPT and with a question written through a pointer into the header.",
        "design_ref": "DESIGN.md section 5, C04",
        "note": TB,
        "technique": "TLC exhaustive check of the header-word views + TLC trace validation of getter observations against the TLA+ summary",
    },
    "C05": {
        "text": "TLC model-checks the record-by-record re-emission with its reference-offset latch (spec/Uncompress.tla) for all packets of up to 4 records with input / output sizes in {1,2,3} and every reference offset: the carried offset of every boundary is the same boundary of the output and the latch fires exactly once (a latch on the record's end is the negative control). For every accepted packet of the corpus (TLA+-born in three layouts, generated, boundary, repository packets) TLC validates the recorded result of uncompress against the post-condition written in TLA+: accepted by the policy, identical header, identical record sequence with byte-identical names/types/classes/TTLs and canonical data, no pointer in any understood name, unchanged by a second decompression; and for every record boundary of the input (start of every record including the question and OPT, and the end) the carried offset equals the same boundary of the output.",
        "design_ref": "DESIGN.md section 5, C05",
        "note": TB + "Offsets that are not record boundaries are outside the statement and not judged.",
        "technique": "TLC model checking of a TLA+ re-emission machine + TLC trace validation of decompression results against a TLA+ post-condition (all record boundaries)",
    },
    "C06": {
        "text": "TLC model-checks the suffix-dictionary machine (spec/Compress.tla: 3 slots so that wrap-around and the pinned first slot are reached, MaxRefs = 2) over all sequences of up to 4 names: every dictionary entry resolves in the output to its suffix, the output is faithful, not longer, and needs no more than MaxRefs jumps; the two defects of the pinned tree (input-coordinate offsets, untracked chain depth) are negative controls TLC must detect. A byte-level TLA+ transcription of compress() itself (spec/CompressImpl.tla: 32-slot dictionary with pinned first slot, 127-byte and 16384 limits, depth tracking, per-type data, RDLENGTH) is model-checked against the post-condition on 1 500 (thorough 40 000) Gen_S1 packets, on packets with 28..40 (80) distinct suffixes and on nesting to depth 20 (40), with the two historical defects as negative controls, and its output is compared byte for byte with the real code's on every recorded call (identical on all of them; reported as a note otherwise). The real compress() is then run on accepted pointer-free packets (TLA+-born plain layout, generator, decompressed forms of compressed packets, families with nesting to depth 40, up to 70 distinct suffixes, 120..132-byte suffixes, names beyond offset 16383, mixed-case duplicates, OPT at every position) and TLC validates: accepted, not longer, same message up to case with the question byte-identical, OPT in place, and decompressing gives back the input up to case.",
        "design_ref": "DESIGN.md section 5, C06",
        "note": TB + "Which suffixes are shared and the exact output bytes are not compared.",
        "technique": "TLC model checking of a TLA+ dictionary machine + TLC trace validation of compression results against a TLA+ post-condition",
    },
    "C07": {
        "text": "The property-level function Rename!Replace on label sequences and a byte-level TLA+ transcription of replace_raw are shown equal by TLC on all (name, source, target, mode) over labels {a, A, ab} up to three labels (121 680 cases incl. overflow at a scaled limit). The whole renamer is also transcribed (spec/RenameFull.tla = replace_raw + the compressor's dictionary), model-checked against the post-condition on the Gen_S1 universe x sources x targets x modes (14 400 cases, thorough 288 000) and compared byte for byte with the real output of every recorded call. The real Renamer is run on accepted packets with (target, source, mode) drawn from the packet's own names at every label depth, case variants, partial-label near misses, self renames and overflowing targets; TLC validates each result: overflow iff some rewritten name exceeds 255 bytes, otherwise accepted output, identical skeleton (header, counts, order, types, classes, TTLs, opaque data, MX preference, SOA tail, OPT in place) and every name of the output equal, case-insensitively, to Replace of the corresponding input name; the input packet untouched.",
        "design_ref": "DESIGN.md section 5, C07",
        "note": TB + "Compression choices of the output and letter case are not compared.",
        "technique": "TLC equivalence check of two TLA+ presentations of the replacement rule + TLC trace validation of rename results against a TLA+ post-condition",
    },
    "C08": {
        "text": "Every operation of a recorded history is one event carrying the bytes before and after, every public field of the object, a fresh parse of the resulting bytes and, for cursor scripts, bytes + fields + the cursor's accessors after every sub-step. TLC evaluates C08's state predicate after every step and sub-step (spec/History.tla StateWhy, ViewWhy, Designates): bytes acceptable with the two caller-breakable clauses lifted and, when those hold, accepted by the real parser with the same view; section offsets, EDNS offset/count/version/flags/rcode and the cached question equal to Message!FreshView of the bytes; maybe_compressed false only when no pointer is left; a cursor that changed or kept a record still designates it and advancing yields the record that follows. Histories: every single operation (header setters, question getters, recompute, insert into each section of records synthesised from text and of records built field by field with RR::new (the OPT pseudo-record among them: valid, misplaced, duplicate, non-root owner, malformed options), insert of a question, rename, cursor scripts with set_raw_name / delete / double delete / in-place decompression / TTL / address / advance at positions 1..3 of every section incl. the OPT record, and advance / in-place decompression through readers of the EDNS options) on 8 hand-built and TLA+-born packets and 2 synthesised ones, pairs of operations after 16 state-changing first operations, fill-up histories across the size limit, and seeded random histories of 3..14 operations.",
        "design_ref": "DESIGN.md section 5, C08",
        "note": TB + "maybe_compressed is an implication; 'exactly one question' and QR gating are lifted (DESIGN.md C08 (ii)); max_payload is not part of the compared view; records handed to insert_rr are well-formed records of their type (an OPT record is one: the message-level rules on it are the library's to enforce, like the single-question rule). Every cursor sub-step, insertion and recompute is in addition compared byte for byte with the implementation-shaped transcription spec/ObjectImpl.tla (notes only).",
        "technique": "TLC trace validation of recorded mutation histories against a TLA+ step relation (state predicate evaluated after every step)",
    },
    "C09": {
        "text": "Same recorded histories as C08; TLC compares the decoded message before and after every step with the effect written in spec/History.tla (EffectWhy, SubsWhy): set_raw_name replaces only that owner, delete removes only that record and its count, insert appends the denoted record (the event carries the structured record the text denotes) at the end of the chosen section, TTL / address setters change only that field, header setters only their field, rename maps every name through Rename!Replace (case-insensitively, since compression intervenes), everything else byte-identical after decompression; operations are also required to succeed when no stated reason for failure applies.",
        "design_ref": "DESIGN.md section 5, C09",
        "note": TB,
        "technique": "TLC trace validation of recorded mutation histories against per-operation effects on the decoded message",
    },
    "C10": {
        "text": "Same recorded histories as C08 with failure-inducing arguments in the alphabet (second question, malformed / out-of-range record text, names with a 64-byte label, a forbidden byte or truncated, operations through a deleted record's cursor, renames that overflow 255 bytes, insertions crossing 8192 bytes from every starting size, operations that must re-parse a packet whose question was deleted or whose QR bit was cleared). For every step that reports an error TLC checks that the decoded message is unchanged and that C08's predicate still holds; for insert that a successful result is never larger than 8192 bytes and that an insertion whose decompressed size plus the record exceeds 8192 fails with 'Packet too large'. The evidence counts failed steps per operation and the check refuses to pass if insert, question insert or rename never failed.",
        "design_ref": "DESIGN.md section 5, C10",
        "note": TB,
        "technique": "TLC trace validation of failed operations in recorded histories (message unchanged, state predicate, size limit)",
    },
    "C12": {
        "text": "TLC checks on all 65 536 words x a covering argument set that the field, mask and arithmetic presentations of every setter coincide, that set_flags ignores the upper argument half, keeps opcode/rcode and decomposes as f(w,a) = f(w,0) | f(0,a). The real setters and getters are run from every initial word of the tier (quick 4096, thorough all 65 536) with vectors of arguments (covering set, per-bit upper-half variants, all 256 rcode/opcode values for covering words, every 16-bit argument against w = 0 and 0xffff) and TLC validates every resulting word, that no other byte of the packet changed, and every getter; the thorough tier additionally sweeps all 2^32 (w, a) pairs inside the implementation for the decomposition, which together with the validated tables covers all pairs.",
        "design_ref": "DESIGN.md section 5, C12",
        "note": TB + "'No other byte changed' is a byte comparison made by the driver; all 2^32 pairs are covered by decomposition, not by 2^32 TLC evaluations.",
        "technique": "TLC exhaustive check of the TLA+ header setters + TLC trace validation of batched setter/getter tables of the real code",
    },
    "C14": {
        "text": "TLC checks that the character-level machine of the converter obeys the declarative statement (must-accept, must-reject, result well-formed with exactly the input's labels plus the zone) on every string of up to 7 bytes over {a, -, ., 0xC8} with and without a zone at scaled caps. The real raw_name_from_str is run on every string of length <= 4 (thorough 6) over {a,B,_,.,-,7} with and without a default zone, on label lengths 58..66, totals 236..262, other bytes and random LDH names; TLC validates verdict and labels against the specification and, after giving the converted name to a record, that name() returns the lower-cased input without its trailing dot (followed by the zone).",
        "design_ref": "DESIGN.md section 5, C14",
        "note": TB + "Texts in neither must-set (63-byte labels, wire 254..255, bytes >= 128, control characters) are not judged on their verdict.",
        "technique": "TLC model checking of a TLA+ converter machine against the declarative statement + TLC trace validation of conversions and read-backs",
    },
    "C11": {
        "text": "TLC model-checks the walk-with-deletions machine (spec/Walk.tla) for all sections of 0..4 records, every deletion subset, OPT at every position and both readers, in the code's restart-from-section-start design and in a continue-after-delete design: in bounds, no deleted record yielded again, every survivor yielded, section = survivors in order, bounded number of yields, termination under weak fairness; the pinned tree's OPT-skipping defect is a negative control. Every such walk (sections of 0..4 records, thorough 0..6, in answer / authority / additional, OPT at every position, compressed and pointer-free, with and without OPT included, every deletion subset, plus the question) is executed on the real library with a second delete after each first one, and TLC validates the recorded walk: each yield designates a live record of the current bytes, deletions remove exactly that record, second delete = void record with nothing touched, survivors all yielded, final section = survivors with matching count and absent when empty, C08's predicate after every deletion.",
        "design_ref": "DESIGN.md section 5, C11",
        "note": TB + "The order in which survivors are re-yielded after a deletion is not compared.",
        "technique": "TLC model checking (safety + liveness) of a TLA+ walk machine + TLC trace validation of exhaustively enumerated walks on the real library",
    },
    "C13": {
        "text": "TLC checks that Synth!WireRR (structured record -> RFC 1035 bytes, TXT split at 255) decodes with Message!Decode back to the same record for all nine types over a universe of names and the TXT lengths around the chunk boundary. RR::from_string is run on ~1.2k grammar-derived valid texts (nine types x boundary values x four whitespace / keyword-case styles), ~230 systematically damaged texts (missing / surplus field, out-of-range number, malformed address, unbalanced / empty quotes, odd-length and non-hex digest, 64-byte label, empty interior label, other class, unknown type) and thousands of arbitrary byte strings and token soups; TLC validates: valid text => exactly WireRR(record); damaged => error; never a panic; anything returned is a well-formed record; inserting it into the answer, authority and additional section of a valid packet leaves a packet the policy accepts.",
        "design_ref": "DESIGN.md section 5, C13",
        "note": TB + "Texts are rendered from structured records by the scenario generator (lib/synthgen.py); the record travels with the text so TLC never parses text. Texts whose classification the statement leaves open are only in the arbitrary family.",
        "technique": "TLC round-trip check of the TLA+ record encoder + TLC trace validation of synthesised records against the TLA+ wire form",
    },
    "C15": {
        "text": "A C program (harness/cdrive.c) is compiled against the header the library ships, with pointer/integer mismatches as errors, and drives the table exactly as a hook does: every entry called by the header's field name, section callbacks with per-record actions (observe name/type/class/TTL/address, set TTL, set address, set raw name, set name with and without default zone, delete, double delete, stop), add to each section incl. a second question and malformed text, rename, raw-packet copy-out with capacities 0 / len-1 / len / 8192, question copy-out, name conversion; abi_version, the last field, is read through the header's layout. The same scripts are executed natively through the Rust API; TLC validates, event by event, that both report the same return value, output values and error description and leave the object in the same state (bytes and every public field), that canaries around every exactly-sized out-buffer are intact, names NUL-terminated within 256 bytes with nothing written behind, addresses exactly 4 or 16 bytes, packets written only when they fit. Scripts: one touching every entry per base packet + seeded random scripts; the thorough tier repeats a subset under valgrind memcheck.",
        "design_ref": "DESIGN.md section 5, C15",
        "note": TB + "What the native operations must do is decided by C03-C14; buffer discipline is decided by canaries and (thorough) valgrind, i.e. by runtime monitors whose post-conditions are stated in spec/Trace_CAbi.tla; scripts respect the table's documented preconditions.",
        "technique": "TLC trace validation of paired executions (C table vs native API) of the same scripts, refinement by event-wise equality",
    },
    "C16": {
        "text": "TLC model-checks the slot machine (spec/Slots.tla): with one slot per thread every read returns the reading thread's most recent failure in all interleavings; with one shared slot (negative control) TLC finds the interleaving that breaks it. Every interleaving TLC enumerates (2 threads x fail-read-fail-read: 70 schedules; thorough also 3 threads: 1680) is replayed on the real table by a coordinator that releases one thread step at a time; failing calls differ per thread and step; TLC validates each recorded schedule: every retrieved description equals the text the same failure has natively on that thread.",
        "design_ref": "DESIGN.md section 5, C16",
        "note": TB + "Threads are Rust threads calling the exported table entries; schedules are controlled through channels, not timing.",
        "technique": "TLC model checking of a TLA+ slot machine over all interleavings + replay of every enumerated schedule on the real table, validated by TLC",
    },
    "C17": {
        "text": "The purity machine (spec/Purity.tla) keeps a memo of the first result of every (function, input) and requires every later result to be byte-identical. TLC enumerates every ordered pair (thorough: triple) of calls from a pool of 14 (parse, uncompress, compress, rename on bytes and on the object, record synthesis, name conversion, empty packet) chosen to make leaked state visible (a packet with 40 distinct suffixes followed by packets sharing its suffixes at other offsets); each history runs back to back on one thread of one process, then the pool runs concurrently on 2, 4 and 8 threads in rotated orders; TLC consumes the whole trace statefully and rejects any result that differs from the first one seen (the id bytes of a synthesised empty packet excepted).",
        "design_ref": "DESIGN.md section 5, C17",
        "note": TB + "Schedule independence is tested by free-running threads behind a barrier, not by enumerating interleavings (the oracle does not depend on the schedule).",
        "technique": "stateful TLC trace validation of TLC-enumerated call histories against a TLA+ memo machine",
    },
}
