"""What MANIFEST.json claims per property (source of bin/mkmanifest)."""

HOOK_COMMITS = ["3fb7366"]

TB = ("trusted: TLC and the TLA+ reading of the property in /verif/spec (written from the statement and the anchors, "
      "independent of the code); the Rust driver only performs calls and logs raw values, it contains no DNS decoder. ")

CLAIMS = {
    "C01": {
        "text": "TLC checks on the parser machine (spec/Parser.tla) that no byte access happens without a guard, that the cursor stays inside the buffer and that every run terminates, exhaustively over all short byte strings at scaled limits, over every stand-alone name check (any buffer, any offset, both walkers) and over token-assembled packets at the real limits; the real parser, the two public name checkers and the cursor primitives are then run on ~10^5 (quick) to ~10^6 (thorough) generated, mutated, truncated and adversarial inputs up to 70 000 bytes and every recorded outcome is validated by TLC (result or error, bytes unchanged, cursor in bounds, checker verdicts equal to the specification's readers). Panics, aborts and hangs of the code are recorded as events and rejected.",
        "design_ref": "DESIGN.md section 5, C01",
        "note": TB + "'Reads outside the buffer / overflows the stack' are decided through their observable form in safe Rust (panic, abort, watchdog); the parser has no unsafe code.",
        "technique": "TLC model checking of a TLA+ parser machine + TLC trace validation of recorded executions of the real parser",
    },
    "C02": {
        "text": "The policy is written twice in TLA+: declaratively (Wire!WhyNot, clause by clause from the property statement) and operationally (Parser, mirroring the code's control flow). TLC shows both agree on every enumerated packet (exhaustive byte strings at scaled limits, token-level packets with single faults at real limits). The real parser's verdict on every generated input is then validated by TLC against WhyNot in both directions; the evidence counts, per clause, the inputs that fail exactly that clause, and the check refuses to pass if a clause was never exercised.",
        "design_ref": "DESIGN.md section 5, C02",
        "note": TB + "Error kinds and the order in which clauses are tested are not compared.",
        "technique": "TLC refinement check between two TLA+ presentations of the policy + TLC trace validation of the real parser's verdicts (both directions)",
    },
    "C18": {
        "text": "The parser machine carries the same step counter as the cfg-guarded hook (one per name-walk iteration, option, record); TLC checks the bound steps*14 <= (2*(MaxRefs+(MaxName+1)/2)+1)*len + const as an invariant of the machine at several limit triples, and validates the hook's counter for every real parse, including families built to maximise pointer following (maximal names reached through 16-jump ladders by thousands of 14-byte records: measured 20.25 steps/byte against a bound of 20.64), uncapped ladders, pointer loops and dense option lists up to 65 535 bytes.",
        "design_ref": "DESIGN.md section 5, C18",
        "note": TB + "The counter is the hook's; a loop the hook does not instrument would not be seen (the name walkers, the option loop and the record loops are instrumented).",
        "technique": "TLC invariant on the TLA+ parser machine's step counter + TLC validation of hook-counted steps of the real parser against the specified linear bound",
    },
}
