"""What MANIFEST.json claims per property (source of bin/mkmanifest)."""

HOOK_COMMITS = ["3fb7366"]

TB = ("trusted: TLC and the TLA+ reading of the property in /verif/spec (written from the statement and the anchors, "
      "independent of the code); the Rust driver only performs calls and logs raw values, it contains no DNS decoder. ")

CLAIMS = {
    "C01": {
        "text": "TLC checks on the parser machine (spec/Parser.tla) that no byte access happens without a guard, that the cursor stays inside the buffer and that every run terminates, exhaustively over all short byte strings at scaled limits, over every stand-alone name check (any buffer, any offset, both walkers) and over token-assembled packets at the real limits; the real parser, the two public name checkers and the cursor primitives are then run on ~10^5 (quick) to ~10^6 (thorough) generated, mutated, truncated and adversarial inputs up to 70 000 bytes and every recorded outcome is validated by TLC (result or error, bytes unchanged, cursor in bounds, checker verdicts equal to the specification's readers). Panics, aborts and hangs of the code are recorded as events and rejected.",
        "design_ref": "DESIGN.md section 5, C01",
        "note": TB + "'Reads outside the buffer / overflows the stack' are decided through their observable form in safe Rust (panic, abort, watchdog); the parser has no unsafe code.",
        "technique": "TLC model checking of a TLA+ parser machine + TLC trace validation of recorded executions of the real parser",
    },
    "C02": {
        "text": "The policy is written twice in TLA+: declaratively (Wire!WhyNot, clause by clause from the property statement) and operationally (Parser, mirroring the code's control flow). TLC shows both agree on every enumerated packet (exhaustive byte strings at scaled limits, token-level packets with single faults at real limits). The real parser's verdict on every generated input is then validated by TLC against WhyNot in both directions; the evidence counts, per clause, the inputs that fail exactly that clause, and the check refuses to pass if a clause was never exercised.",
        "design_ref": "DESIGN.md section 5, C02",
        "note": TB + "Error kinds and the order in which clauses are tested are not compared.",
        "technique": "TLC refinement check between two TLA+ presentations of the policy + TLC trace validation of the real parser's verdicts (both directions)",
    },
    "C18": {
        "text": "The parser machine carries the same step counter as the cfg-guarded hook (one per name-walk iteration, option, record); TLC checks the bound steps*14 <= (2*(MaxRefs+(MaxName+1)/2)+1)*len + const as an invariant of the machine at several limit triples, and validates the hook's counter for every real parse, including families built to maximise pointer following (maximal names reached through 16-jump ladders by thousands of 14-byte records: measured 20.25 steps/byte against a bound of 20.64), uncapped ladders, pointer loops and dense option lists up to 65 535 bytes.",
        "design_ref": "DESIGN.md section 5, C18",
        "note": TB + "The counter is the hook's; a loop the hook does not instrument would not be seen (the name walkers, the option loop and the record loops are instrumented).",
        "technique": "TLC invariant on the TLA+ parser machine's step counter + TLC validation of hook-counted steps of the real parser against the specified linear bound",
    },
    "C03": {
        "text": "TLC model-checks the section cursor (spec/Readers.tla: start offset + records-left counter, OPT skipping) for all sections of up to 5 records with OPT at every position: in bounds, counter exact, yields exactly the expected records, terminates; the pinned tree's missing decrement is kept as a negative control that TLC must detect. Then, for every accepted packet among TLA+-born packets (Gen_S1: all name-bearing types, three pointer layouts, OPT first/middle/last/absent, 0..2 options), generated, boundary and repository packets, the six walks and every accessor value logged by the driver are validated by TLC against Message!Decode (offsets, lower-case name, raw name, type, class, TTL, data length, data, address, section, option extents, bytes untouched).",
        "design_ref": "DESIGN.md section 5, C03",
        "note": TB + "Accessors are compared on accepted packets only (rejected inputs are outside the statement).",
        "technique": "TLC model checking of a TLA+ cursor machine + TLC trace validation of every reader/accessor observation against the TLA+ decoder",
    },
    "C04": {
        "text": "TLC checks on all 65 536 flag words that the field view, the mask view and the arithmetic view of the header word coincide (spec/Header.tla); every getter of the real library (tid, opcode, rcode, QR, 32-bit flags, DNSSEC indicator, question in three forms asked before and after the cache is filled, EDNS version / extended rcode / option count / payload size, section and EDNS offsets) is validated by TLC against Message!Summary on every accepted packet of the C03 corpus and on a sweep of flag words over six base packets (quick: 4096 seeded + all one-hot / all-but-one words; thorough: all 65 536) with and without OPT and with a question written through a pointer into the header.",
        "design_ref": "DESIGN.md section 5, C04",
        "note": TB,
        "technique": "TLC exhaustive check of the header-word views + TLC trace validation of getter observations against the TLA+ summary",
    },
    "C05": {
        "text": "For every accepted packet of the corpus (TLA+-born in three layouts, generated, boundary, repository packets) TLC validates the recorded result of uncompress against the post-condition written in TLA+: accepted by the policy, identical header, identical record sequence with byte-identical names/types/classes/TTLs and canonical data, no pointer in any understood name, unchanged by a second decompression; and for every record boundary of the input (start of every record including the question and OPT, and the end) the carried offset equals the same boundary of the output.",
        "design_ref": "DESIGN.md section 5, C05",
        "note": TB + "Offsets that are not record boundaries are outside the statement and not judged.",
        "technique": "TLC trace validation of decompression results against a TLA+ post-condition (stateless events, all record boundaries)",
    },
    "C06": {
        "text": "TLC model-checks the suffix-dictionary machine (spec/Compress.tla: 3 slots so that wrap-around and the pinned first slot are reached, MaxRefs = 2) over all sequences of up to 4 names: every dictionary entry resolves in the output to its suffix, the output is faithful, not longer, and needs no more than MaxRefs jumps; the two defects of the pinned tree (input-coordinate offsets, untracked chain depth) are negative controls TLC must detect. The real compress() is then run on accepted pointer-free packets (TLA+-born plain layout, generator, decompressed forms of compressed packets, families with nesting to depth 40, up to 70 distinct suffixes, 120..132-byte suffixes, names beyond offset 16383, mixed-case duplicates, OPT at every position) and TLC validates: accepted, not longer, same message up to case with the question byte-identical, OPT in place, and decompressing gives back the input up to case.",
        "design_ref": "DESIGN.md section 5, C06",
        "note": TB + "Which suffixes are shared and the exact output bytes are not compared.",
        "technique": "TLC model checking of a TLA+ dictionary machine + TLC trace validation of compression results against a TLA+ post-condition",
    },
    "C07": {
        "text": "The property-level function Rename!Replace on label sequences and a byte-level TLA+ transcription of replace_raw are shown equal by TLC on all (name, source, target, mode) over labels {a, A, ab} up to three labels (121 680 cases incl. overflow at a scaled limit). The real Renamer is run on accepted packets with (target, source, mode) drawn from the packet's own names at every label depth, case variants, partial-label near misses, self renames and overflowing targets; TLC validates each result: overflow iff some rewritten name exceeds 255 bytes, otherwise accepted output, identical skeleton (header, counts, order, types, classes, TTLs, opaque data, MX preference, SOA tail, OPT in place) and every name of the output equal, case-insensitively, to Replace of the corresponding input name; the input packet untouched.",
        "design_ref": "DESIGN.md section 5, C07",
        "note": TB + "Compression choices of the output and letter case are not compared.",
        "technique": "TLC equivalence check of two TLA+ presentations of the replacement rule + TLC trace validation of rename results against a TLA+ post-condition",
    },
}
