"""Per-property checks.  Each function fills a vlib.Run."""
import collections
import hashlib
import json
import os

import vlib
from vlib import ToolError, log

SEEDS = os.path.join(vlib.SPEC, "seeds.ndjson")
CHECKS = {}


def check(pid):
    def deco(f):
        CHECKS[pid] = f
        return f
    return deco


def quick(run):
    return run.tier == "quick"


def dedupe(lines):
    seen = set()
    out = []
    for l in lines:
        h = hashlib.sha1(l.encode()).digest()
        if h in seen:
            continue
        seen.add(h)
        out.append(l)
    return out


def seed_packets():
    with open(SEEDS) as f:
        return ['{"pkt":%s}' % json.dumps(json.loads(l)["pkt"], separators=(",", ":")) for l in f if l.strip()]


# ------------------------------------------------------------------------------------------------
# C01 / C02 / C18: one parser call per input

def parser_models(run, negs):
    """M: the parser machine (spec/Parser.tla) against the declarative policy (spec/Wire.tla):
    every byte string over a small alphabet at scaled limits, every stand-alone name check on every
    buffer and offset, and token-level packets at the real limits."""
    t = "" if quick(run) else "_thorough"
    run.model("MC_Parser", "MC_Parser_names%s.cfg" % t)
    run.model("MC_Parser", "MC_Parser_bytes%s.cfg" % t)
    run.model("MC_Parser", "MC_Parser_tokens.cfg")
    for n in negs:
        run.negative_control("MC_Parser", "MC_Parser_neg_%s.cfg" % n)


def gen_tla(run, module, cfg):
    """Packets printed by a TLA+ generator module as "@@REPLAY|{json}" lines."""
    rc, out = vlib.tlc(module + ".tla", os.path.join(vlib.SPEC, cfg), run.wd, workers=vlib.NCPU, timeout=1800)
    bad = vlib.tlc_failed(rc, out)
    if bad:
        raise ToolError("%s failed: %s\n%s" % (module, bad, vlib.tlc_error_text(out)))
    pk = [rest for _, rest in vlib.prints(out, "REPLAY")]
    st = vlib.tlc_stats(out)
    run.cov.setdefault("generators", []).append({"module": module, "count": len(pk), "states": st["distinct"] if st else 0})
    return pk


def parser_inputs(run, n_struct, n_random, n_havoc, n_adv, big=True):
    sd = vlib.seed()
    pk = vlib.vdrive_gen("beyond64k", 0, 0)      # first: their bytes stay in the log (only the first large inputs do)
    pk += gen_tla(run, "Gen_Ptr", "Gen_Ptr.cfg")
    pk += vlib.vdrive_gen("structured", sd, n_struct)
    pk += vlib.vdrive_gen("honest", sd + 1, n_struct // 4)
    pk += vlib.vdrive_gen("random", sd + 2, n_random)
    pk += vlib.vdrive_gen("havoc", sd + 3, n_havoc) if False else _havoc(sd + 3, n_havoc)
    pk += _truncs(40)
    pk += vlib.vdrive_gen("boundary", 0, 0)
    if big:
        pk += vlib.vdrive_gen("big", 0, 0)
    pk += vlib.vdrive_gen("adversarial", sd + 4, n_adv)
    pk += seed_packets()
    return dedupe(pk)


def _gen_with_seeds(fam, sd, n):
    import subprocess
    r = subprocess.run([vlib.VDRIVE, "gen", fam, str(sd), str(n), SEEDS], stdout=subprocess.PIPE, stderr=subprocess.PIPE, text=True)
    if r.returncode != 0:
        raise ToolError("vdrive gen %s failed: %s" % (fam, r.stderr[-300:]))
    return [l for l in r.stdout.splitlines() if l]


def _havoc(sd, n):
    return _gen_with_seeds("havoc", sd, n)


def _truncs(n):
    return _gen_with_seeds("truncs", 0, n)


def run_parse(run, inv, tags, sizes, big_logged=40, log_bytes=True):
    pk = parser_inputs(run, *sizes)
    if not log_bytes:
        big_logged = 0
    # TLC needs ~0.3 s for a 65 kB byte string: only the first few very large inputs keep their bytes
    # in the log (C01 and C18 do not need them), all inputs below 4 kB always do
    scen = []
    nbig = 0
    for l in pk:
        if len(l) > 16000 or not log_bytes:
            nbig += 1
            if nbig > big_logged:
                scen.append('{"do":"parse","nolog":true,' + l[1:])
                continue
        scen.append('{"do":"parse",' + l[1:])
    obs, path = vlib.drive(scen, run.wd, "parse")
    if len(obs) != len(scen):
        raise ToolError("driver returned %d observations for %d scenarios" % (len(obs), len(scen)))
    bad, out = vlib.validate(path, "Trace_Parse", "Trace_Parse_%s.cfg" % inv, run.wd, len(obs), tags)
    return pk, scen, obs, bad, out


def _sizes(run):
    # structured, random, havoc, adversarial scale
    return (20000, 3000, 6000, 30) if quick(run) else (400000, 40000, 120000, 300)


@check("C02")
def c02(run):
    run.assumptions += [
        "the reading of the policy is spec/Wire.tla (WhyNot); it was written from the property statement and the anchors and is compared with the code in both directions",
        "inputs: structured generator with lies, random bytes, havoc of the repository's test/corpus packets, every truncation prefix of 40 seeds, boundary families on both sides of 63/64, 255/256, 16/17, big packets",
    ]
    parser_models(run, ["optdup", "barrier"] + ([] if quick(run) else ["refs"]))
    pk, scen, obs, bad, out = run_parse(run, "C02", {"VIOLATION-C02"}, _sizes(run))
    clauses = collections.Counter()
    for tag, ln, txt in vlib.event_prints(out, "CLAUSE"):
        clauses[txt] += 1
    accepted = clauses.get("", 0)
    run.cov["evaluations"] += len(obs)
    run.cov["traces_validated_against_impl"] += len(obs) - len(bad)
    run.cov["distinct_nontrivial"] += sum(v for k, v in clauses.items() if k not in ("header-truncated", "question-count"))
    run.cov["rule"] = "distinct byte strings (deduplicated by hash) that get past the header checks: accepted, or rejected by a clause about the question, a record, a name, OPT or trailing bytes"
    run.cov["clauses"] = dict(clauses)
    run.cov["accepted"] = accepted
    run.cov["samples"] = [vlib.shorten(o, 300) for o in vlib.sample(obs, 3)]
    need = ["", "header-truncated", "question-count", "question-truncated", "question-class", "query-with-answers",
            "fixed-part-truncated", "rdata-truncated", "name-rdata-shape", "mx-rdata-shape", "soa-rdata-shape",
            "dname-rdata-shape", "a-size", "aaaa-size", "opt-placement", "opt-owner-not-root", "opt-duplicate",
            "options-do-not-tile", "trailing-bytes", "owner:label-too-long", "owner:name-too-long",
            "owner:too-many-pointers", "owner:pointer-not-backward", "owner:pointer-to-root", "owner:bad-char",
            "owner:segment-overrun", "qname:label-too-long", "qname:name-too-long"]
    missing = [c for c in need if clauses.get(c, 0) == 0]
    if missing:
        raise ToolError("vacuous run: no input exercised clause(s) %s" % missing)
    for ln, (tag, why) in sorted(bad.items()):
        o = json.loads(obs[ln - 1])
        sig = "parse|" + (why.split(":")[0] if isinstance(why, str) else "?") + "|" + (why if isinstance(why, str) else "")
        run.violation(sig, why, {"do": "parse", "pkt": o.get("pkt", [])})


def _pkt_of(line):
    return json.loads(line)["pkt"]


@check("C01")
def c01(run):
    import random
    rnd = random.Random(vlib.seed())
    run.assumptions += [
        "a panic, an abort of the driver process and a watchdog timeout (20 s without progress) are the observable forms of 'crash', 'stack overflow', 'out-of-bounds read' and 'hang' in safe Rust; the parser contains no unsafe code",
        "bytes of parse inputs are not needed by this property and are not logged; the verdict itself is C02's business",
    ]
    parser_models(run, ["label", "barrier"] + ([] if quick(run) else ["refs"]))
    st, rn, hv, adv = _sizes(run)
    pk = parser_inputs(run, st * 2, rn * 3, hv * 2, adv * 10)
    scen = ['{"do":"parse","nolog":true,' + l[1:] for l in pk]
    n_parse = len(scen)
    # public name checkers: every offset of a sample of small packets, and offsets beyond
    small = [l for l in pk if len(l) < 700]
    rnd.shuffle(small)
    n_name_pk = 250 if quick(run) else 4000
    for l in small[:n_name_pk]:
        p = _pkt_of(l)
        for off in list(range(0, len(p) + 3)) + [65536, -1]:
            scen.append(json.dumps({"do": "name", "pkt": p, "off": off, "below_max": rnd.choice([0, 1, 7])}, separators=(",", ":")))
    # cursor primitives: sequences of calls with arguments around every boundary
    n_prims = 400 if quick(run) else 6000
    for l in small[n_name_pk:n_name_pk + n_prims] or small[:n_prims]:
        p = _pkt_of(l)
        n = len(p)
        menu = [0, 1, 2, 9, 10, 11, 12, max(n - 11, 0), max(n - 10, 0), max(n - 1, 0), n, n + 1, 65536, 1 << 31, -1, -2]
        ops = []
        for _ in range(rnd.randint(1, 14)):
            code = rnd.choice([0, 0, 1, 1, 1, 2, 2, 3])
            ops.append([code, rnd.choice(menu) if code < 2 else 0])
        scen.append(json.dumps({"do": "prims", "pkt": p, "ops": ops}, separators=(",", ":")))
    obs, path = vlib.drive(scen, run.wd, "c01")
    if len(obs) != len(scen):
        raise ToolError("driver returned %d observations for %d scenarios" % (len(obs), len(scen)))
    bad, out = vlib.validate(path, "Trace_Parse", "Trace_Parse_C01.cfg", run.wd, len(obs), {"VIOLATION-C01"})
    kinds = collections.Counter()
    res = collections.Counter()
    maxlen = 0
    for o in obs:
        k = o[6:o.index('"', 6)]
        kinds[k] += 1
    for o in obs[:n_parse]:
        e = json.loads(o) if len(o) < 400 else None
        if e:
            res[e.get("res", e.get("k"))] += 1
            maxlen = max(maxlen, e.get("len", 0))
    run.cov["evaluations"] += len(obs)
    run.cov["traces_validated_against_impl"] += len(obs) - len(bad)
    run.cov["event_kinds"] = dict(kinds)
    run.cov["parse_results"] = dict(res)
    run.cov["max_input_len"] = max(len(_pkt_of(l)) for l in sorted(pk, key=len)[-3:])
    run.cov["distinct_nontrivial"] += (len(obs) - n_parse) + sum(1 for l in pk if l.count(",") >= 11)
    run.cov["rule"] = "distinct inputs (byte strings deduplicated by hash; name-checker events distinct by (buffer, offset); primitive scripts distinct by construction); non-trivial = at least 12 bytes long or a name/primitive event"
    run.cov["samples"] = [vlib.shorten(o, 300) for o in (vlib.sample(obs[:n_parse], 2) + vlib.sample(obs[n_parse:], 2))]
    if kinds.get("name", 0) == 0 or kinds.get("prims", 0) == 0:
        raise ToolError("vacuous run: no name-checker or primitive events")
    for ln, (tag, why) in sorted(bad.items()):
        sc = json.loads(scen[ln - 1])
        sig = "%s|%s" % (sc.get("do"), why)
        run.violation(sig, why, sc)


@check("C18")
def c18(run):
    run.assumptions += [
        "steps are counted by the cfg(dnssector_verif) hook: one per iteration of the two name-walking loops, one per EDNS option, one per record and question",
        "the bound is (2*(MaxRefs+(MaxName+1)/2)+1)/14 * len + 3*(MaxRefs+(MaxName+1)/2)+2 with the limits of spec/Wire.tla (63/255/16): 289 steps per 14-byte record",
    ]
    parser_models(run, [])
    st, rn, hv, adv = _sizes(run)
    pk = parser_inputs(run, st, rn, hv, 1000 if quick(run) else 4000)
    scen = ['{"do":"parse","nolog":true,' + l[1:] for l in pk]
    obs, path = vlib.drive(scen, run.wd, "c18")
    if len(obs) != len(scen):
        raise ToolError("driver returned %d observations for %d scenarios" % (len(obs), len(scen)))
    bad, out = vlib.validate(path, "Trace_Parse", "Trace_Parse_C18.cfg", run.wd, len(obs), {"VIOLATION-C18"})
    worst = (0.0, None)
    heavy = 0
    tot = 0
    for o in obs:
        e = json.loads(o)
        if e.get("k") != "parse":
            continue
        tot += e["steps"]
        if e["len"] >= 12 and e["steps"] > e["len"]:
            heavy += 1
        ratio = e["steps"] / max(e["len"], 1)
        if e["len"] >= 1000 and ratio > worst[0]:
            worst = (ratio, {"len": e["len"], "steps": e["steps"], "res": e["res"]})
    run.cov["evaluations"] += len(obs)
    run.cov["traces_validated_against_impl"] += len(obs) - len(bad)
    run.cov["distinct_nontrivial"] += heavy
    run.cov["rule"] = "distinct inputs; non-trivial = the parser spent more steps than the input has bytes (pointer following dominates)"
    run.cov["worst_ratio_steps_per_byte_len_ge_1000"] = {"ratio": round(worst[0], 3), "input": worst[1]}
    run.cov["total_steps"] = tot
    run.cov["samples"] = [worst[1]] + [vlib.shorten(o, 200) for o in vlib.sample(obs, 2)]
    # the machine whose bound TLC checks counts what the hook counts: run Parser.tla on recorded inputs
    sd = vlib.seed()
    pk2 = dedupe(vlib.vdrive_gen("structured", sd + 31, 3000 if quick(run) else 40000) + vlib.vdrive_gen("boundary", 0, 0) + gen_tla(run, "Gen_Ptr", "Gen_Ptr.cfg")[::(12 if quick(run) else 1)])
    obs2, path2 = vlib.drive(vlib.with_do(pk2, "parse"), run.wd, "path")
    rc, out2 = vlib.tlc("Trace_ParserPath.tla", os.path.join(vlib.SPEC, "Trace_ParserPath.cfg"), run.wd, env={"TRACE": path2}, timeout=3600)
    if vlib.tlc_failed(rc, out2) or "Error:" in out2:
        raise ToolError("Trace_ParserPath failed:\n" + vlib.tlc_error_text(out2))
    pc = collections.Counter()
    for _, ln, txt in vlib.event_prints(out2, "PATH"):
        a, b = txt.split("|")
        pc[a] += 1
        pc[b.split(":")[0]] += 1
    st2 = vlib.tlc_stats(out2)
    run.cov["parser_machine_run_on_recorded_inputs"] = {"inputs": len(obs2), "machine_states": st2["distinct"] if st2 else 0, **dict(pc)}
    if pc.get("steps-differ", 0):
        run.notes.append("note (not a violation): on %d of %d recorded inputs the step counter of the TLA+ parser machine differs from the hook's counter; the machine is implementation-shaped and may lag behind a refactoring of the loops" % (pc["steps-differ"], len(obs2)))
    if tot == 0:
        raise ToolError("the step counter hook reports nothing: is the harness built with --cfg dnssector_verif?")
    if worst[0] < 15:
        raise ToolError("vacuous run: the adversarial families did not come near the bound (worst ratio %.2f)" % worst[0])
    for ln, (tag, why) in sorted(bad.items()):
        sc = json.loads(scen[ln - 1])
        sc.pop("nolog", None)
        run.violation("parse|steps over the linear bound", why, sc)


# ------------------------------------------------------------------------------------------------
# accepted packets: born in the specification (S1) + generated (S4) + repository seeds (S5)

def gen_s1(run, count, offset=None, stride=41868361):
    """Packets enumerated by TLC from spec/Gen_S1.tla (round trip checked while generating)."""
    offset = vlib.seed() * 104729 if offset is None else offset
    cfg = os.path.join(run.wd, "Gen_S1_%d.cfg" % count)
    with open(cfg, "w") as f:
        f.write("CONSTANTS\n  MaxLabel = 63\n  MaxName = 255\n  MaxRefs = 16\n  Count = %d\n  Stride = %d\n  Offset = %d\nINIT Init\nNEXT Next\nCHECK_DEADLOCK FALSE\n" % (count, stride, offset % 1000000))
    rc, out = vlib.tlc("Gen_S1.tla", cfg, run.wd, workers=vlib.NCPU, timeout=1800)
    bad = vlib.tlc_failed(rc, out)
    if bad or "BADGEN" in out:
        raise ToolError("Gen_S1 failed: %s\n%s" % (bad, vlib.tlc_error_text(out) if bad else [l for l in out.splitlines() if "@@BADGEN" in l][:3]))
    pk = []
    for _, rest in vlib.prints(out, "REPLAY"):
        pk.append(rest)
    st = vlib.tlc_stats(out)
    run.cov.setdefault("generators", []).append({"module": "Gen_S1", "count": len(pk), "states": st["distinct"] if st else 0})
    return pk


def accepted_inputs(run, n_s1, n_honest, n_struct, pointer_free=False, adversarial=True):
    sd = vlib.seed()
    pk = gen_s1(run, n_s1)
    if pointer_free:
        pk += vlib.vdrive_gen("pointerfree", sd + 11, n_honest)
    else:
        pk += vlib.vdrive_gen("honest", sd + 11, n_honest)
        pk += vlib.vdrive_gen("structured", sd + 12, n_struct)
    pk += vlib.vdrive_gen("boundary", 0, 0)
    # the adversarial families at a small scale: the ones the parser accepts exercise the readers and the
    # transformations at the caps (16 pointers, 255-byte names, dense options) as well
    if adversarial:
        pk += [p for p in vlib.vdrive_gen("adversarial", sd + 13, 40) if len(p) < 12000]
        # pointer layouts through never-validated bytes, mid-label targets, the header (the accepted ones of Gen_Ptr)
        pk += gen_tla(run, "Gen_Ptr", "Gen_Ptr.cfg")[(sd % 9)::(9 if quick(run) else 2)]
    pk += seed_packets()
    return dedupe(pk)


def drive_filtered(run, scen, name):
    """Runs scenarios; drops the ones the executor skipped (input not accepted by the parser)."""
    obs, _ = vlib.drive(scen, run.wd, name + "_raw")
    if len(obs) != len(scen):
        raise ToolError("driver returned %d observations for %d scenarios" % (len(obs), len(scen)))
    keep = [(s, o) for s, o in zip(scen, obs) if not o.startswith('{"k":"skip"')]
    path = os.path.join(run.wd, name + ".ndjson")
    with open(path, "w") as f:
        for _, o in keep:
            f.write(o + "\n")
    os.unlink(os.path.join(run.wd, name + "_raw.ndjson"))
    return [s for s, _ in keep], [o for _, o in keep], path


def readers_run(run, inv, tag):
    n = (2500, 2500, 4000) if quick(run) else (200000, 120000, 200000)
    pk = accepted_inputs(run, *n)
    scen, obs, path = drive_filtered(run, vlib.with_do(pk, "read"), "read")
    bad, out = vlib.validate(path, "Trace_Read", "Trace_Read_%s.cfg" % inv, run.wd, len(obs), {tag})
    run.cov["evaluations"] += len(obs)
    run.cov["traces_validated_against_impl"] += len(obs) - len(bad)
    run.cov["samples"] = [vlib.shorten(o, 500) for o in vlib.sample(obs, 2)]
    for ln, (t, why) in sorted(bad.items()):
        sc = json.loads(scen[ln - 1])
        run.violation("read|" + (why.split(":")[-1].strip() if isinstance(why, str) else "?"), why, sc)
    return scen, obs, out


@check("C03")
def c03(run):
    run.assumptions += ["accepted packets come from the TLA+ generator Gen_S1 (OPT at every position, every name-bearing type, three layouts), from the seeded generators and from the repository's own packets; rejected inputs are skipped",
                        "the OPT-skipping and the OPT-including readers are both walked to the end; a panic of any accessor is a recorded event"]
    run.model("MC_Readers", "MC_Readers.cfg")
    run.negative_control("MC_Readers", "MC_Readers_neg.cfg")
    scen, obs, out = readers_run(run, "C03F", "VIOLATION-C03")
    facts = collections.Counter()
    nontrivial = 0
    for _, ln, txt in vlib.event_prints(out, "FACTS"):
        f = json.loads(txt)
        facts["opt:" + f["opt"]] += 1
        if f["ptrs"] > 0:
            facts["with pointers"] += 1
        if f["nrec"] >= 2 or f["ptrs"] > 0:
            nontrivial += 1
    run.cov["packet_facts"] = dict(facts)
    run.cov["distinct_nontrivial"] = nontrivial
    run.cov["rule"] = "distinct accepted packets; non-trivial = at least two records or at least one compression pointer"
    for k in ("opt:first", "opt:middle", "opt:last", "opt:none", "with pointers"):
        if facts.get(k, 0) == 0 and not any("res\":\"panic" in o for o in obs):
            raise ToolError("vacuous run: no accepted packet with %s" % k)


@check("C04")
def c04(run):
    run.assumptions += ["the flag-word sweep rewrites bytes 2..3 of six base packets (query/response, without OPT and with OPT carrying extended flags 0x0000/0x8000/0xffff, question through a header pointer) with every 16-bit value (thorough) or 4096 seeded values plus all one-hot and all-but-one words (quick); words that make the packet unacceptable to the parser are skipped by the driver"]
    run.model("MC_Header", "MC_Header.cfg")
    scen, obs, out = readers_run(run, "C04", "VIOLATION-C04")
    # flag-word sweep on base packets
    import random
    rnd = random.Random(vlib.seed())
    words = set(1 << k for k in range(16)) | set(0xffff ^ (1 << k) for k in range(16)) | {0, 0xffff}
    if quick(run):
        while len(words) < 4096:
            words.add(rnd.randrange(65536))
    else:
        words = set(range(65536))
    q = [1, 113, 0, 0, 1, 0, 1]
    opt = lambda hi, lo: [0, 0, 41, 4, 208, 3, 1, hi, lo, 0, 4, 0, 10, 0, 0]
    bases = [
        [0, 7, 0, 0, 0, 1, 0, 0, 0, 0, 0, 0] + q,
        [0, 7, 0, 0, 0, 1, 0, 0, 0, 0, 0, 1] + q + opt(0, 0),
        [0, 7, 0, 0, 0, 1, 0, 0, 0, 0, 0, 1] + q + opt(128, 0),
        [0, 7, 0, 0, 0, 1, 0, 0, 0, 0, 0, 1] + q + opt(255, 255),
        [0, 7, 0, 0, 0, 1, 0, 1, 0, 0, 0, 1] + q + [192, 12, 0, 1, 0, 1, 0, 0, 0, 9, 0, 4, 1, 2, 3, 4] + opt(128, 0),
        [1, 97, 0, 0, 0, 1, 0, 0, 0, 0, 0, 0, 192, 0, 0, 1, 0, 1],   # question written through a pointer into the header
    ]
    sw = []
    for b in bases:
        for w in sorted(words):
            p = list(b)
            p[2], p[3] = w >> 8, w & 255
            sw.append('{"do":"read","pkt":%s}' % json.dumps(p, separators=(",", ":")))
    s2, o2, path = drive_filtered(run, sw, "sweep")
    bad, out2 = vlib.validate(path, "Trace_Read", "Trace_Read_C04.cfg", run.wd, len(o2), {"VIOLATION-C04"})
    run.cov["evaluations"] += len(o2)
    run.cov["traces_validated_against_impl"] += len(o2) - len(bad)
    run.cov["flag_words_per_base"] = len(words)
    run.cov["sweep_events_accepted"] = len(o2)
    run.cov["exhaustive_flag_words"] = not quick(run)
    run.cov["distinct_nontrivial"] = len(obs) + len(o2)
    run.cov["rule"] = "distinct accepted packets (generated packets deduplicated by hash; sweep packets distinct by (base, flag word))"
    run.cov["samples"].append(vlib.shorten(o2[len(o2) // 2], 400))
    if len(o2) < len(words) * 3:
        raise ToolError("vacuous sweep: only %d of %d sweep packets were accepted" % (len(o2), len(sw)))
    for ln, (t, why) in sorted(bad.items()):
        run.violation("sweep|" + str(why), why, json.loads(s2[ln - 1]))


# ------------------------------------------------------------------------------------------------
# C05 / C06 / C07: packet-to-packet transformations

def transform_run(run, scen, name, inv, tag):
    scen, obs, path = drive_filtered(run, scen, name)
    bad, out = vlib.validate(path, "Trace_Transform", "Trace_Transform_%s.cfg" % inv, run.wd, len(obs), {tag})
    facts = collections.Counter()
    for _, ln, txt in vlib.event_prints(out, "FACT"):
        facts[txt] += 1
    inq = len(obs) - facts.get("skipped", 0)
    run.cov["evaluations"] += inq
    run.cov["outside_quantifier_skipped"] = run.cov.get("outside_quantifier_skipped", 0) + facts.get("skipped", 0)
    run.cov["traces_validated_against_impl"] += inq - len(bad)
    run.cov.setdefault("facts", {})
    for k, v in facts.items():
        run.cov["facts"][k] = run.cov["facts"].get(k, 0) + v
    run.cov["samples"] += [vlib.shorten(o, 500) for o in vlib.sample(obs, 2)]
    return scen, obs, bad, facts


def compress_models(run):
    """M: the suffix-dictionary machine (spec/Compress.tla), repaired design, all sequences of <= 4
    (thorough: 5) names of <= 3 labels with a 3-slot dictionary (wrap-around and pinned slot) and
    MaxRefs = 2; the two defect switches must be detected."""
    run.model("MC_Compress", "MC_Compress.cfg" if quick(run) else "MC_Compress_thorough.cfg", timeout=3600)
    run.negative_control("MC_Compress", "MC_Compress_neg_offsets.cfg")
    run.negative_control("MC_Compress", "MC_Compress_neg_depth.cfg")
    # byte-level transcription of compress() against the post-condition of C06
    run.model("MC_CompressImpl", "MC_CompressImpl.cfg" if quick(run) else "MC_CompressImpl_thorough.cfg", timeout=7200)
    run.negative_control("MC_CompressImpl", "MC_CompressImpl_neg_offsets.cfg")
    run.negative_control("MC_CompressImpl", "MC_CompressImpl_neg_depth.cfg")


def rename_models(run):
    """M: the byte-level transcription of replace_raw computes Rename!Replace on every
    (name, source, target, mode) over labels {a, A, ab} up to three labels, MaxName scaled to 7."""
    run.model("MC_Rename", "MC_Rename.cfg")
    # byte-level transcription of the whole renamer (replace_raw + dictionary) against C07's post-condition
    run.model("MC_RenameFull", "MC_RenameFull.cfg" if quick(run) else "MC_RenameFull_thorough.cfg", timeout=7200)


@check("C05")
def c05(run):
    run.assumptions += ["for every accepted packet the driver asks for every offset 12..min(len,712) and len to be carried across; the specification looks at those that are record boundaries of Decode(input) (non-boundary offsets are outside the statement)"]
    run.model("MC_Uncompress", "MC_Uncompress.cfg")
    run.negative_control("MC_Uncompress", "MC_Uncompress_neg.cfg")
    n = (2500, 2000, 3000) if quick(run) else (60000, 30000, 50000)
    pk = accepted_inputs(run, *n)
    scen = vlib.with_do(pk, "uncompress", '"all_offsets":true,')
    scen, obs, bad, facts = transform_run(run, scen, "unc", "C05", "VIOLATION-C05")
    # byte level: the recorded outputs against the transcription of the re-emission (spec/ObjectImpl.tla UncompressOut)
    small = [o for o in obs if len(o) < 60000]
    p2 = os.path.join(run.wd, "unc_small.ndjson")
    with open(p2, "w") as f:
        f.write("\n".join(small) + "\n")
    diff, out2 = vlib.validate(p2, "Trace_ObjectImpl", "Trace_ObjectImpl_unc.cfg", run.wd, len(small), {"NOTE-IMPL"}, shards=4)
    compared = sum(int(txt) for _, ln, txt in vlib.event_prints(out2, "FACT"))
    run.cov["transcription_vs_code_output"] = {"compared_byte_for_byte": compared, "different": len(diff)}
    if diff:
        run.notes.append("note (not a violation by itself): on %d of %d recorded calls the bytes emitted by uncompress() differ from the TLA+ transcription" % (len(diff), compared))
    run.cov["distinct_nontrivial"] = facts.get("compressed", 0)
    run.cov["rule"] = "distinct accepted packets; non-trivial = the input contains at least one compression pointer"
    if facts.get("compressed", 0) < 100:
        raise ToolError("vacuous run: only %d compressed inputs" % facts.get("compressed", 0))
    for ln, (t, why) in sorted(bad.items()):
        run.violation("uncompress|" + str(why).split(":")[0], why, json.loads(scen[ln - 1]))


@check("C06")
def c06(run):
    run.assumptions += ["inputs are the accepted pointer-free packets among: Gen_S1 packets in the plain layout, the pointer-free generator, the decompressed form of compressed packets (the event logs the actual input), and families that stress the dictionary (nesting to depth 40, up to 70 distinct suffixes, suffixes of 120..132 bytes, names beyond offset 16383, mixed-case duplicates with OPT at every position)",
                        "which suffixes are shared and the exact output bytes are not compared"]
    compress_models(run)
    n = (2500, 3000, 1500) if quick(run) else (60000, 40000, 30000)
    sd = vlib.seed()
    pk = gen_s1(run, n[0])
    via = dedupe(pk + vlib.vdrive_gen("honest", sd + 21, n[2]))
    direct = dedupe(vlib.vdrive_gen("pointerfree", sd + 22, n[1]) + vlib.vdrive_gen("compressfam", 0, 0) + seed_packets())
    scen = vlib.with_do(direct, "compress") + vlib.with_do(via, "compress", '"via_uncompress":true,')
    scen, obs, bad, facts = transform_run(run, scen, "comp", "C06", "VIOLATION-C06")
    # note: is the transcription the algorithm of this code?  byte-for-byte comparison on the recorded calls
    small = [o for o in obs if len(o) < 40000]
    small = small[::max(1, len(small) // 15000)]          # the byte-for-byte pass is a note-level aid: bounded
    p2 = os.path.join(run.wd, "comp_small.ndjson")
    with open(p2, "w") as f:
        f.write("\n".join(small) + "\n")
    rc, out2 = vlib.tlc("Trace_CompressImpl.tla", os.path.join(vlib.SPEC, "Trace_CompressImpl.cfg"), run.wd, env={"TRACE": p2}, timeout=3600)
    if vlib.tlc_failed(rc, out2) or "Error:" in out2:
        raise ToolError("Trace_CompressImpl failed:\n" + vlib.tlc_error_text(out2))
    ic = collections.Counter(txt for _, ln, txt in vlib.event_prints(out2, "IMPL"))
    run.cov["transcription_vs_code_output"] = dict(ic)
    if ic.get("different", 0):
        run.notes.append("note (not a violation): on %d of %d recorded calls the bytes emitted by compress() differ from the TLA+ transcription (another, equally valid, choice of suffixes)" % (ic["different"], ic["different"] + ic.get("same", 0)))
    run.cov["distinct_nontrivial"] = facts.get("shrunk", 0)
    run.cov["rule"] = "accepted pointer-free inputs; non-trivial = compression made the packet strictly shorter (at least one pointer was emitted)"
    if facts.get("shrunk", 0) < 100 and not bad:
        raise ToolError("vacuous run: only %d inputs were actually compressed" % facts.get("shrunk", 0))
    for ln, (t, why) in sorted(bad.items()):
        w = str(why)
        sig = "compress|" + w.split(":")[0] + ("|" + w.split(":", 1)[1].strip() if "rejected" in w and ":" in w else "")
        run.violation(sig, why, json.loads(scen[ln - 1]))


@check("C07")
def c07(run):
    run.assumptions += ["(target, source, mode) are drawn per packet from the names the packet contains (every label depth), case variants, partial-label near misses, self renames and targets that push rewritten names past 255 bytes",
                        "compression choices of the output and the letter case of names are not compared"]
    rename_models(run)
    n = (2500, 1500, 1000) if quick(run) else (50000, 30000, 20000)
    pk = accepted_inputs(run, *n, adversarial=False) + vlib.vdrive_gen("compressfam", 0, 0)
    per = 3
    scen = []
    sd = vlib.seed()
    for i, l in enumerate(pk):
        for j in range(per):
            scen.append('{"do":"rename_menu","n":1,"seed":%d,%s' % (sd * 1000003 + i * per + j, l[1:]))
    # label-boundary near misses: a label of the packet *contains the wire encoding* of the source's first label
    # (its length byte is a printable character for lengths 32..61), followed by the rest of the source
    H = histgen
    for L in (32, 33, 47, 48, 57, 61):
        src = [L] + [97] * L + H.name("com")
        inner = [120, L] + [97] * L                     # "x", chr(L), "a" * L : one label of L + 2 bytes
        near = [len(inner)] + inner + H.name("com")
        aligned = H.name("www") [:-1] + src
        q = near + [0, 1, 0, 1]
        pkt = H.hdr(30, 0x8180, 1, 3, 1, 0) + q + H.rr(near, 5, 1, near) + H.rr(aligned, 1, 2, [1, 2, 3, 4]) + H.rr(H.ptr(12), 15, 3, [0, 5] + near) + H.rr(aligned, 2, 4, near)
        for tgt in (H.name("net"), H.name("b" * 20, "org")):
            for sfx in (True, False):
                scen.append(json.dumps({"do": "rename", "pkt": pkt, "target": tgt, "source": src, "suffix": sfx}, separators=(",", ":")))
    scen, obs, bad, facts = transform_run(run, scen, "ren", "C07", "VIOLATION-C07")
    # note: the transcription's output vs the real renamer's output, byte for byte, on the recorded calls
    small = [o for o in obs if len(o) < 40000]
    small = small[::max(1, len(small) // 15000)]          # the byte-for-byte pass is a note-level aid: bounded
    p2 = os.path.join(run.wd, "ren_small.ndjson")
    with open(p2, "w") as f:
        f.write("\n".join(small) + "\n")
    rc, out2 = vlib.tlc("Trace_RenameFull.tla", os.path.join(vlib.SPEC, "Trace_RenameFull.cfg"), run.wd, env={"TRACE": p2}, timeout=3600)
    if vlib.tlc_failed(rc, out2) or "Error:" in out2:
        raise ToolError("Trace_RenameFull failed:\n" + vlib.tlc_error_text(out2))
    ic = collections.Counter()
    for _, ln, txt in vlib.event_prints(out2, "IMPL"):
        a, b = txt.split("|", 1)
        ic[a] += 1
        ic[b.split(":")[0]] += 1
    run.cov["transcription_vs_code_output"] = dict(ic)
    if ic.get("different", 0):
        run.notes.append("note (not a violation): on %d recorded calls the renamer's bytes differ from the TLA+ transcription's" % ic["different"])
    if ic.get("post-fails", 0):
        run.notes.append("note: the TLA+ transcription of the renamer itself fails C07's post-condition on %d recorded inputs (a design finding about the transcribed algorithm)" % ic["post-fails"])
    run.cov["distinct_nontrivial"] = facts.get("some-match", 0) + facts.get("all-match", 0) + facts.get("overflow", 0)
    run.cov["rule"] = "rename calls on accepted packets with well-formed non-root names; non-trivial = at least one name of the packet matches the source (or the call must fail because a rewritten name overflows)"
    if run.cov["distinct_nontrivial"] < 200 and not bad:
        raise ToolError("vacuous run: only %d renames matched anything" % run.cov["distinct_nontrivial"])
    for ln, (t, why) in sorted(bad.items()):
        run.violation("rename|" + str(why), why, json.loads(scen[ln - 1]))


# ------------------------------------------------------------------------------------------------
# C12 header setters

@check("C12")
def c12(run):
    import random
    rnd = random.Random(vlib.seed())
    run.assumptions += ["setters are applied to a freshly parsed packet (header + question, with and without an OPT record carrying extended flags) for every initial flag word of the tier; 'rest unchanged' is a byte comparison of everything outside the field's two bytes made by the driver",
                        "quick: 4096 initial words (all one-hot, all-but-one, seeded) x a covering set of arguments; thorough: all 65 536 initial words, every 16-bit argument against w = 0 and w = 0xffff and the tables f(w,0), f(0,a), plus a sweep of all 2^32 (w, a) pairs inside the implementation checking f(w,a) = f(w,0) | f(0,a) (the lemma TLC checks on the specification), which extends the validated tables to all pairs"]
    run.model("MC_Header", "MC_Header.cfg")
    cover = sorted(set([0, 0xffff, 0x87f0, 0x780f, 0x7800, 0x000f, 0x8000, 0x7fff, 0x1234, 0xabcd] + [1 << k for k in range(16)] + [0xffff ^ (1 << k) for k in range(16)]))
    words = set(cover)
    if quick(run):
        while len(words) < 4096:
            words.add(rnd.randrange(65536))
    else:
        words = set(range(65536))
    scen = []
    for w in sorted(words):
        fa = [[a, 0] for a in cover] + [[a, 1 << k] for k in range(16) for a in (0, w ^ 0xffff)] + [[rnd.randrange(65536), rnd.randrange(65536)] for _ in range(6)]
        if w in (0, 0xffff) and not quick(run):
            fa = [[a, (a * 7) & 0xffff] for a in range(65536)]
        elif w in (0, 0xffff):
            fa += [[a, 0] for a in range(0, 65536, 17)]
        rv = sorted(set([0, 1, 15, 16, 17, 31, 128, 240, 255] + [rnd.randrange(256) for _ in range(4)]))
        if w in cover:
            rv = list(range(256))
        # the packet around the header varies too: small, larger than 512 bytes, larger than the payload its OPT
        # record advertises (512 / 1232 / 4096 / 65535), larger than 8192
        pad, payload = [(0, 1232), (600, 512), (1300, 1232), (0, 65535), (5000, 4096), (9000, 1232), (700, 65535)][len(scen) % 7]
        xrcode, ver = [(2, 1), (0, 0), (1, 0), (0x10, 0), (0xff, 0), (0, 0xff)][(len(scen) // 7) % 6]
        scen.append(json.dumps({"do": "hdr", "w": w, "tid": rnd.randrange(65536), "xfl": rnd.choice([-1, 0x8000, 0, 0xffff]), "pad": pad, "payload": payload, "xrcode": xrcode, "ver": ver,
                                "fa": fa, "rv": rv, "ov": rv, "tv": [0, 1, 255, 256, 65535, rnd.randrange(65536)]}, separators=(",", ":")))
    if not quick(run):
        scen.append(json.dumps({"do": "decomp", "threads": vlib.NCPU}))
    obs, path = vlib.drive(scen, run.wd, "hdr", watchdog=600)
    if len(obs) != len(scen):
        raise ToolError("driver returned %d observations for %d scenarios" % (len(obs), len(scen)))
    bad, out = vlib.validate(path, "Trace_Header", "Trace_Header_C12.cfg", run.wd, len(obs), {"VIOLATION-C12"})
    calls = sum(o.count("],[") + 5 for o in obs)
    run.cov["evaluations"] += calls
    run.cov["events"] = len(obs)
    run.cov["initial_words"] = len(words)
    run.cov["exhaustive_initial_words"] = not quick(run)
    run.cov["traces_validated_against_impl"] += len(obs) - len(bad)
    run.cov["distinct_nontrivial"] = len(obs)
    run.cov["rule"] = "one event per initial flag word (distinct by construction), each holding the results of every setter for a vector of arguments; evaluations counts setter calls"
    run.cov["samples"] = [vlib.shorten(o, 400) for o in vlib.sample(obs, 2)]
    if not quick(run):
        d = json.loads(obs[-1])
        run.cov["pairs_swept_in_implementation"] = d.get("pairs_hi", 0) * 65536 + d.get("pairs_lo", 0)
        run.cov["exhaustive"] = d.get("res") == "ok" and run.cov["pairs_swept_in_implementation"] == 1 << 32
    for ln, (t, why) in sorted(bad.items()):
        sc = json.loads(scen[ln - 1])
        sig = "header|" + str(why).split("(")[0].split(" on ")[0]
        run.violation(sig, why, sc)


# ------------------------------------------------------------------------------------------------
# C14 host names: text <-> wire

@check("C14")
def c14(run):
    import itertools
    import random
    rnd = random.Random(vlib.seed())
    run.assumptions += ["texts that the statement does not classify (63-byte labels, wire lengths 254..255, bytes >= 128, control characters) are only required not to panic and, if accepted, to give a well-formed name with the input's labels",
                        "read-back is judged when giving the converted name to a record succeeded (a failing or panicking set_raw_name is C08/C09's business)",
                        "the empty string is 'not a host name' for the zone clause (the library returns the root)"]
    run.model("MC_NameText", "MC_NameText.cfg")
    alpha = [ord(c) for c in "aB_.-7"]
    zone = [1, 122, 2, 90, 122, 0]
    texts = []
    maxlen = 4 if quick(run) else 7
    for n in range(0, maxlen + 1):
        for t in itertools.product(alpha, repeat=n):
            texts.append(list(t))
    # boundary families: single labels of 58..66 bytes, totals of 236..262, many short labels
    for ll in range(58, 67):
        t = [120] * ll
        texts += [t, t + [46], [119, 46] + t, t + [46, 119]]
    # two boundaries at once: labels of 60..64 bytes repeated up to totals of 246..258 (with and without the final dot)
    for ll in range(60, 65):
        for total in range(246, 259):
            t = []
            while len(t) + ll + 1 <= total:
                t += [122] * ll + [46]
            rest = total - len(t)
            if rest > 0:
                t += [119] * rest
            else:
                t = t[:-1]
            texts += [t, t + [46]]
    for total in range(236, 263):
        t = []
        while len(t) + 51 <= total:
            t += [121] * 50 + [46]
        while len(t) < total:
            t.append(119)
        texts.append(t)
        if t[-1] != 46:
            texts.append(t + [46])
        texts.append([97, 46] * (total // 2))
    # other bytes: control characters, 127, 128, 129, 255, space, backslash
    for b in (0, 9, 31, 32, 92, 127, 128, 129, 255):
        texts += [[97, b, 98], [b], [97, 46, b, 46, 99]]
    # random LDH names of random shape
    for _ in range(300 if quick(run) else 20000):
        nl = rnd.randint(1, 6)
        t = []
        for i in range(nl):
            t += [rnd.choice(b"abcXYZ019-_") for _ in range(rnd.choice([1, 2, 5, 20, 61, 62, 63]))] + [46]
        if rnd.random() < 0.5:
            t.pop()
        texts.append(t)
    scen = []
    for t in texts:
        for z in ([], zone):
            scen.append(json.dumps({"do": "nametext", "text": t, "zone": z}, separators=(",", ":")))
    scen = dedupe(scen)
    obs, path = vlib.drive(scen, run.wd, "names")
    if len(obs) != len(scen):
        raise ToolError("driver returned %d observations for %d scenarios" % (len(obs), len(scen)))
    bad, out = vlib.validate(path, "Trace_Names", "Trace_Names_C14.cfg", run.wd, len(obs), {"VIOLATION-C14"})
    facts = collections.Counter(txt for _, ln, txt in vlib.event_prints(out, "FACT"))
    run.cov["evaluations"] += len(obs)
    run.cov["traces_validated_against_impl"] += len(obs) - len(bad)
    run.cov["facts"] = dict(facts)
    run.cov["exhaustive_short_texts"] = "all strings of length <= %d over {a,B,_,.,-,7} x {no zone, zone z.Zz.}" % maxlen
    run.cov["distinct_nontrivial"] = sum(v for k, v in facts.items() if not k.startswith("unspecified"))
    run.cov["rule"] = "distinct (text, zone) pairs; non-trivial = the statement fixes the verdict (must-accept or must-reject)"
    run.cov["samples"] = [vlib.shorten(o, 300) for o in vlib.sample(obs, 3)]
    if facts.get("must-accept+readback", 0) < 50 and not bad:
        raise ToolError("vacuous run: only %d read-backs could be observed" % facts.get("must-accept+readback", 0))
    for ln, (t, why) in sorted(bad.items()):
        run.violation("nametext|" + str(why), why, json.loads(scen[ln - 1]))


# ------------------------------------------------------------------------------------------------
# C08 / C09 / C10: mutation histories

import re as _re
import histgen

RE_C10 = _re.compile(r"a failed|must fail|must report a void|larger than the maximum|exceed the size limit|malformed record text was inserted|second question was inserted|succeeded although|accepted a name the parser rejects|succeeded on a record without")
RE_C09X = _re.compile(r"EDNS options read through the object")
RE_C08 = _re.compile(r"(the bytes are no longer acceptable|no longer acceptable|section offsets|offset of the EDNS|EDNS option count|EDNS version|the object says|the cached question|fresh parse|re-parsing|no longer designates|not a tombstone|does not yield the record that follows|reader|declared the bytes pointer-free|question getters|question\(\)|question_raw|cursor script did not complete)")


def classify(why, res="ok"):
    if " ;; " in why:
        out = set()
        for part in why.split(" ;; "):
            out |= classify(part, res)
        return out
    if why.startswith("panic"):
        return {"C08", "C09", "C10"}
    if res == "err" and RE_C08.search(why) and not RE_C10.search(why):
        # after a *failed* operation the object must still satisfy C08: that clause belongs to C10 as well
        return {"C08", "C10"}
    if RE_C09X.search(why):
        return {"C09"}
    if RE_C10.search(why):
        return {"C10"}
    if RE_C08.search(why):
        return {"C08"}
    return {"C09"}


def history_events(run, scenarios, name="hist"):
    groups = vlib.drive_groups(scenarios)
    if len(groups) != len(scenarios):
        raise ToolError("driver returned %d groups for %d scenarios" % (len(groups), len(scenarios)))
    events, owner = [], []
    for gi, g in enumerate(groups):
        for l in g:
            if l.startswith('{"k":"skip"'):
                continue
            events.append(l)
            owner.append(gi)
    path = os.path.join(run.wd, name + ".ndjson")
    with open(path, "w") as f:
        for l in events:
            f.write(l + "\n")
    return events, owner, path


def history_run(run, pid):
    sd = vlib.seed()
    extra = gen_s1(run, 12 if quick(run) else 200)
    scen = histgen.histories(sd, run.tier, extra)
    # S3: every behaviour of at most 3 (thorough: 4) abstract operations, enumerated by TLC
    seqs = [json.loads(x) for x in gen_tla(run, "Gen_Hist", "Gen_Hist_%s.cfg" % run.tier)]
    scen += histgen.behaviours(seqs, histgen.behaviour_bases())
    scen += histgen.size_limit_histories()
    run.cov["behaviours_enumerated_by_tlc"] = len(seqs)
    events, owner, path = history_events(run, scen)
    bad, out = vlib.validate(path, "Trace_History", "Trace_History.cfg", run.wd, len(events), {"VIOLATION-HIST"}, shards=4)
    facts = collections.Counter()
    for _, ln, txt in vlib.event_prints(out, "FACT"):
        kind, res, state = txt.split("|")
        facts["op:" + kind] += 1
        facts["res:" + res] += 1
        facts["state:" + state] += 1
        if res == "err":
            facts["failed:" + kind] += 1
    mine = {}
    for ln, (t, why) in bad.items():
        res = "err" if '"res":"err"' in events[ln - 1][events[ln - 1].find('"o":'):events[ln - 1].find('"post":')] else "ok"
        cl = classify(str(why), res)
        if pid == "HIST" or pid in cl:
            mine[ln] = ("[%s] " % "+".join(sorted(cl)) + str(why)) if pid == "HIST" else why
    judged = len(events) - facts.get("state:skipped", 0)
    run.cov["evaluations"] += judged
    run.cov["histories"] = len(scen)
    object_impl_conformance(run, events)
    run.cov["traces_validated_against_impl"] += judged - len(mine)
    run.cov["steps_by_operation"] = {k[3:]: v for k, v in facts.items() if k.startswith("op:")}
    run.cov["steps_by_result"] = {k[4:]: v for k, v in facts.items() if k.startswith("res:")}
    run.cov["steps_by_state"] = {k[6:]: v for k, v in facts.items() if k.startswith("state:")}
    run.cov["failed_steps_by_operation"] = {k[7:]: v for k, v in facts.items() if k.startswith("failed:")}
    run.cov["samples"] = [vlib.shorten(scen[len(scen) // 3], 600), vlib.shorten(events[len(events) // 2], 900)]
    for ln, why in sorted(mine.items()):
        e = json.loads(events[ln - 1])
        sc = json.loads(scen[owner[ln - 1]])
        sc["ops"] = sc["ops"][: e.get("i", 0) + 1]
        op = e.get("o", {}).get("op", "?")
        sub = ""
        if op == "cursor":
            sub = ":" + "+".join(s["s"] for s in e["o"].get("subs", []))[:60] + ":" + e["o"].get("sec", "")
        run.violation("%s%s|%s" % (op, sub, _re.sub(r"\d+", "N", str(why))[:160]), why, sc)
    return scen, events, facts, mine


@check("C08")
def c08(run):
    run.assumptions += ["'exactly one question' and 'answers only in responses' are message-level clauses a caller can break on purpose (delete the question, clear QR): acceptance of the object's bytes is judged with those two clauses lifted (Structural), and whenever they hold the real parser must accept and report the same view; maybe_compressed is compared as an implication (false => no pointer)",
                        "the including-OPT reader exposes the OPT pseudo-record to set_raw_name, set_rr_ttl and delete; these are part of the alphabet"]
    book_models(run, parts=("book", "object"))
    scen, events, facts, mine = history_run(run, "C08")
    run.cov["distinct_nontrivial"] = sum(v for k, v in facts.items() if k.startswith("op:cursor:") and k[10:] in ("set_raw_name", "delete", "uncompress")) + facts.get("op:insert", 0) + facts.get("op:rename", 0) + facts.get("op:insert_q", 0)
    run.cov["rule"] = "recorded steps; non-trivial = the step can change the size or layout of the packet (set_raw_name, delete, in-place decompression, insert, rename)"


@check("C09")
def c09(run):

    run.assumptions += ["the expected effect of every operation is written on the decoded message (spec/History.tla EffectWhy / SubsWhy): names byte-identical for every operation except rename, where compression intervenes and names are compared case-insensitively",
                        "operations are also required to succeed when no stated reason for failure applies (valid name, well-formed text, room left, policy-conforming packet)"]
    book_models(run, negs=("iterunc",), parts=("book", "mutate", "objimpl"))
    scen, events, facts, mine = history_run(run, "C09")
    run.cov["distinct_nontrivial"] = facts.get("res:ok", 0)
    run.cov["rule"] = "recorded steps; non-trivial = the operation succeeded (its effect on the decoded message was compared with the specified one)"


@check("C10")
def c10(run):
    run.assumptions += ["failure-inducing arguments are part of the alphabet: second question, malformed and out-of-range record text, names with a 64-byte label / a forbidden byte / truncated, operations on a deleted record's cursor, renames that overflow 255 bytes, insertions that cross 8192 bytes from every starting size including packets larger than 8192, operations that must re-parse a packet whose question was deleted or whose QR bit was cleared"]
    book_models(run, negs=("insertorder", "optname"), parts=("book", "object"))
    scen, events, facts, mine = history_run(run, "C10")
    failed = {k[7:]: v for k, v in facts.items() if k.startswith("failed:")}
    run.cov["distinct_nontrivial"] = facts.get("res:err", 0)
    run.cov["rule"] = "recorded steps; non-trivial = the operation reported an error (the decoded message before and after was compared, and C08's predicate evaluated)"
    need = ["insert", "insert_q", "rename"]
    if not mine and any(failed.get(k, 0) == 0 for k in need):
        raise ToolError("vacuous run: no failing step for one of %s (%s)" % (need, failed))


def object_impl_conformance(run, events):
    """byte-level: every recorded cursor sub-step and insertion against the object-level transcription
    (spec/ObjectImpl.tla: decompress-first, cursor translation, byte moves, offset shifts).  Notes only."""
    sel = [l for l in events if '"op":"cursor"' in l[:4000] or '"op":"insert' in l[:4000] or '"op":"recompute"' in l[:4000] or '"op":"rename"' in l[:4000]]
    k = 3 if quick(run) else 5
    sel = sel[vlib.seed() % k::k]
    if not sel:
        return
    path = os.path.join(run.wd, "objimpl.ndjson")
    with open(path, "w") as f:
        for l in sel:
            f.write(l + "\n")
    diff, out = vlib.validate(path, "Trace_ObjectImpl", "Trace_ObjectImpl.cfg", run.wd, len(sel), {"NOTE-IMPL"}, shards=4)
    compared = sum(int(txt) for _, ln, txt in vlib.event_prints(out, "FACT"))
    run.cov["object_transcription"] = {"steps_selected": len(sel), "sub_steps_compared_byte_for_byte": compared, "differences": len(diff)}
    if diff:
        kinds = collections.Counter(str(w) for (_, w) in diff.values())
        run.notes.append("note (not a violation): on %d recorded steps the object's bytes / bookkeeping / cursor differ from the TLA+ transcription ObjectImpl: %s" % (len(diff), "; ".join("%s x%d" % kv for kv in kinds.most_common(5))))


def book_models(run, negs=("edns", "cache", "recompute", "optttl"), parts=("book", "mutate", "objimpl", "object")):
    """M: design models of the mutable object.
    book    : the size-level bookkeeping design (spec/Book.tla), repaired design: every initial packet with <= 1
              (thorough: 2) records per section, two names, per-record compression flag, OPT anywhere, every
              behaviour of <= 4 (thorough: 3) operations; defect switches are negative controls
    mutate  : byte-level transcription of resize_rr / set_raw_name / delete / insert_rr at every record position of
              the Gen_S1 packets (pointer-free layout)
    objimpl : byte-exact decompression, decompress-first with cursor translation, on the compressed layouts
    object  : the object as a byte-level state machine: every behaviour of <= 3 (thorough: 4) operations (open /
              advance / set name / delete / decompress / TTL through a cursor, insert, recompute, rename) from
              Gen_S1 messages in all three layouts; invariants Acceptable, Coherent, FlagSound, CursorSound (C08)
              and Effect (C09 / C10)
    The quick tier of each property runs the parts that state that property; the thorough tier runs all."""
    if not quick(run):
        parts = ("book", "mutate", "objimpl", "object")
    if "book" in parts:
        if quick(run):
            run.model("MC_Book", "MC_Book.cfg")
        else:
            run.model("MC_Book", "MC_Book_thorough.cfg", timeout=3600)
            negs = ("edns", "cache", "iterunc", "delopt", "skip", "recompute", "optttl", "optname", "insertorder")
        for n in negs:
            run.negative_control("MC_Book", "MC_Book_neg_%s.cfg" % n)
    if "mutate" in parts:
        run.model("MC_MutateImpl", "MC_MutateImpl.cfg" if quick(run) else "MC_MutateImpl_thorough.cfg", timeout=7200)
        run.negative_control("MC_MutateImpl", "MC_MutateImpl_neg.cfg")
    if "objimpl" in parts:
        run.model("MC_ObjectImpl", "MC_ObjectImpl.cfg" if quick(run) else "MC_ObjectImpl_thorough.cfg", timeout=7200)
        run.negative_control("MC_ObjectImpl", "MC_ObjectImpl_neg_rdlength.cfg")
        run.negative_control("MC_ObjectImpl", "MC_ObjectImpl_neg_cursor.cfg")
    if "object" in parts:
        run.model("MC_Object", "MC_Object.cfg" if quick(run) else "MC_Object_thorough.cfg", timeout=7200)
        for neg in ("cursor", "rdlength", "edns", "optkept", "optinsert", "renameflag", "cache"):
            run.negative_control("MC_Object", "MC_Object_neg_%s.cfg" % neg)
        # reachability controls (non-vacuity): TLC must refute "this never happens" for the situations the invariants are about
        reach = ("NeverOptionCursorDecompresses", "NeverRenameOverflow", "NeverDecompressFirst")
        if not quick(run):
            reach += ("NeverRenamed", "NeverOptInserted", "NeverOptRefused", "NeverTombstoneRefused", "NeverRestart", "NeverCacheReset")
        for r in reach:
            run.negative_control("MC_Object", "MC_Object_reach_%s.cfg" % r)


@check("HIST")
def hist_all(run):
    """development aid (not in the manifest): all classes of history violations at once"""
    history_run(run, "HIST")
    run.cov["distinct_nontrivial"] = 2


# ------------------------------------------------------------------------------------------------
# C11: deleting while iterating

@check("C11")
def c11(run):
    run.assumptions += ["records are identified by their TTL (every record of the walked section gets its own); the question by its position",
                        "the order in which survivors are re-yielded after a deletion is not compared (the code restarts from the section start; continuing would satisfy the property as well, and the model is checked for both)"]
    t = "" if quick(run) else ""
    run.model("MC_Walk", "MC_Walk.cfg")
    run.model("MC_Walk", "MC_Walk_continue.cfg")
    run.negative_control("MC_Walk", "MC_Walk_neg.cfg")
    scen = histgen.walks(run.tier)
    scen, obs, path = drive_filtered(run, scen, "walk")
    bad, out = vlib.validate(path, "Trace_Walk", "Trace_Walk_C11.cfg", run.wd, len(obs), {"VIOLATION-C11"})
    facts = collections.Counter()
    nontrivial = 0
    for _, ln, txt in vlib.event_prints(out, "FACT"):
        if txt == "skipped":
            facts["skipped"] += 1
            continue
        sec, nd, ny = txt.split("|")
        facts[sec] += 1
        if int(nd) > 0:
            nontrivial += 1
        facts["yields"] += int(ny)
    run.cov["evaluations"] += len(obs) - facts.get("skipped", 0)
    run.cov["traces_validated_against_impl"] += len(obs) - facts.get("skipped", 0) - len(bad)
    run.cov["walks_by_section"] = {k: v for k, v in facts.items() if k not in ("yields", "skipped")}
    run.cov["total_yields"] = facts.get("yields", 0)
    run.cov["distinct_nontrivial"] = nontrivial
    run.cov["exhaustive"] = True
    run.cov["rule"] = "one walk per (section contents of 0..%d records, OPT position, compressed or pointer-free, reader kind, deletion subset); non-trivial = at least one record is deleted during the walk" % (4 if quick(run) else 6)
    run.cov["samples"] = [vlib.shorten(o, 700) for o in vlib.sample(obs, 2)]
    if facts.get("skipped", 0) > 0:
        raise ToolError("%d walk scenarios were not C11 scenarios (input rejected or identities not unique)" % facts["skipped"])
    for ln, (t, why) in sorted(bad.items()):
        sc = json.loads(scen[ln - 1])
        run.violation("walk:%s|%s" % (sc["sec"], why), why, sc)


# ------------------------------------------------------------------------------------------------
# C13: record text -> wire record

@check("C13")
def c13(run):
    import synthgen
    run.assumptions += ["valid texts are rendered by the scenario generator from structured records (all nine types; boundary values: TTL 0 .. 2^32-1, 62-byte labels in every position, 253-byte names as owner and inside NS/CNAME/PTR/MX/SOA data, preference 0/65535, TXT of 1/255/256/510/511/3825 bytes and every byte value through decimal escapes, digests of 1/20/32/48 bytes, IPv6 forms) in four whitespace / keyword-case styles; the structured record travels with the text and TLC computes the expected wire form",
                        "every text -- generated, damaged or arbitrary -- is also classified by the grammar written in TLA+ (spec/TextGrammar.tla: valid with the record it denotes / excluded / not judged) directly from its bytes; the two descriptions must agree wherever both speak (otherwise tool error)",
                        "texts whose classification the statement leaves open (all-numeric host names, '-' / '_' at unusual places in a label, 63-byte labels and 254..255-byte names, empty / very long / non-ASCII quoted text, vertical whitespace inside SOA parentheses, IPv4-in-IPv6 notation) are judged only by: no panic; anything returned is a well-formed record; inserting it leaves an accepted packet"]
    run.model("MC_Synth", "MC_Synth.cfg")
    # the grammar against a renderer written in TLA+: Classify(Render(r, style)) = r on 2 500 (record, style) points,
    # and every single-fault edit of the rendered text is excluded
    run.model("MC_TextGrammar", "MC_TextGrammar.cfg")
    scen = dedupe(synthgen.scenarios(vlib.seed(), run.tier))
    obs, path = vlib.drive(scen, run.wd, "synth")
    if len(obs) != len(scen):
        raise ToolError("driver returned %d observations for %d scenarios" % (len(obs), len(scen)))
    bad, out = vlib.validate(path, "Trace_Synth", "Trace_Synth_C13.cfg", run.wd, len(obs), {"VIOLATION-C13", "SPEC-DISAGREE"})
    dis = {ln: w for ln, (t, w) in bad.items() if t == "SPEC-DISAGREE"}
    if dis:
        ln = sorted(dis)[0]
        raise ToolError("the two descriptions of the record-text grammar disagree on %d texts, e.g. %r: %s" % (len(dis), bytes(json.loads(scen[ln - 1])["text"])[:120], dis[ln]))
    cls = collections.Counter(txt for _, ln, txt in vlib.event_prints(out, "FACT"))
    run.cov["by_generator_label_and_grammar_class"] = {k.replace("|", "->"): v for k, v in cls.items()}
    decided = sum(v for k, v in cls.items() if k.split("|")[1] in ("ok", "err"))
    kinds = collections.Counter()
    for sc, o in zip(scen, obs):
        exp = sc[sc.index('"expect":"') + 10:].split('"')[0]
        head = o[:o.index('"wire"')]
        res = "ok" if '"res":"ok"' in head else ("panic" if '"res":"panic"' in head else "err")
        kinds[exp + "->" + res] += 1
    run.cov["evaluations"] += len(obs)
    run.cov["traces_validated_against_impl"] += len(obs) - len(bad)
    run.cov["by_expectation_and_result"] = dict(kinds)
    run.cov["distinct_nontrivial"] = max(decided, sum(v for k, v in kinds.items() if k.startswith("ok") or k.startswith("err")))
    run.cov["rule"] = "distinct texts; non-trivial = the statement fixes the outcome: the TLA+ grammar (spec/TextGrammar.tla) classifies the bytes as valid (and computes the record they denote) or as excluded; the generator's own label, where it has one, must agree"
    run.cov["samples"] = [vlib.shorten(bytes(json.loads(s)["text"]).decode("latin1"), 200) for s in vlib.sample(scen, 4)]
    for ln, (t, why) in sorted(bad.items()):
        sc = json.loads(scen[ln - 1])
        txt = bytes(sc["text"]).decode("latin1")
        ty = next((w for w in txt.upper().split() if w in synthgen.TYPES), "?")
        run.violation("synth:%s|%s" % (ty, _re.sub(r"\d+", "N", str(why))[:140]), why + " | text: " + txt[:120], sc)
    # the insertion clause on packets that are nearly full: what counts against the 8192-byte limit is the wire
    # record, not the length of its notation (spec/History.tla, the step relation of insert)
    hs = histgen.text_insert_histories()
    hev, howner, hpath = history_events(run, hs, "synthins")
    hbad, _ = vlib.validate(hpath, "Trace_History", "Trace_History.cfg", run.wd, len(hev), {"VIOLATION-HIST"}, shards=4)
    run.cov["evaluations"] += len(hev)
    run.cov["insertions_into_nearly_full_packets"] = sum(1 for l in hev if is_text_insert(l))
    for ln, (t, why) in sorted(hbad.items()):
        if not is_text_insert(hev[ln - 1]):
            continue
        e = json.loads(hev[ln - 1])
        sc = json.loads(hs[howner[ln - 1]])
        sc["ops"] = sc["ops"][: e.get("i", 0) + 1]
        run.violation("insert-text|%s" % _re.sub(r"\d+", "N", str(why))[:140], why, sc)
    run.cov["traces_validated_against_impl"] += len(hev) - len(hbad)


def is_text_insert(line):
    o = json.loads(line).get("o", {})
    return o.get("op") == "insert" and "text" in o and not o.get("raw")


# ------------------------------------------------------------------------------------------------
# C15: the C function table

CDRIVE = os.path.join(vlib.HARNESS, "target", "cdrive")


def build_cdrive():
    """Compiles the C driver against the header shipped with the library.  Returns "" or the
    compiler's complaint (a prototype of the header that cannot be used as the table is meant
    to be used is a C15 violation, not a tool error)."""
    import subprocess
    cmd = ["cc", "-O1", "-g", "-Wall", "-Werror=int-conversion", "-Werror=incompatible-pointer-types", "-Werror=implicit-function-declaration",
           "-I", "/repo/src/bin/c_hook", "-o", CDRIVE, os.path.join(vlib.HARNESS, "cdrive.c"),
           os.path.join(vlib.HARNESS, "target", "debug", "libvharness.a"), "-lpthread", "-ldl", "-lm"]
    r = subprocess.run(cmd, stdout=subprocess.PIPE, stderr=subprocess.STDOUT, text=True)
    if r.returncode != 0:
        errs = [l for l in r.stdout.splitlines() if "error" in l]
        if any("c_hook.h" in l or "T->" in l or "FnTable" in l or "member" in l for l in r.stdout.splitlines()):
            return (errs or [r.stdout[-300:]])[0][:300]
        raise ToolError("cannot build cdrive: " + r.stdout[-1500:])
    return ""


def run_cdrive(scripts, valgrind=False):
    """Runs scripts through the C driver; returns one list of event lines per script; a script that
    kills the driver gets a final {"k":"cdied"} marker and the driver is restarted after it."""
    import subprocess
    groups = []
    i = 0
    vg_errors = ""
    while i < len(scripts):
        text = "\n".join("\n".join(s) for s in scripts[i:]) + "\n"
        cmd = [CDRIVE]
        if valgrind:
            cmd = ["valgrind", "-q", "--error-exitcode=97", "--leak-check=no", "--track-origins=no", CDRIVE]
        p = subprocess.run(cmd, input=text, stdout=subprocess.PIPE, stderr=subprocess.PIPE, text=True, timeout=3600)
        cur, done = [], []
        for l in p.stdout.splitlines():
            if l == "#":
                done.append(cur)
                cur = []
            elif l:
                cur.append(l)
        groups.extend(done)
        i += len(done)
        if valgrind and p.returncode == 97:
            vg_errors = p.stderr[-1500:]
        if len(done) == len(scripts) - (i - len(done)) and p.returncode in (0, 97):
            break
        if i >= len(scripts):
            break
        groups.append(cur + ['{"k":"cdied","rc":%d}' % p.returncode])
        i += 1
    return groups, vg_errors


@check("C15")
def c15(run):
    import cscript
    run.assumptions += ["the C driver is compiled against /repo/src/bin/c_hook/c_hook.h and calls every entry by the header's field names; agreement between the Rust struct and the header (order, count, signatures) is established by calling through it, and by abi_version being the last field",
                        "every out-buffer is malloc'ed at its documented size, pre-filled and surrounded by canaries; the thorough tier repeats the run under valgrind memcheck",
                        "scripts respect the table's documented preconditions (rr_ip / set_rr_ip only on A / AAAA with the right family, no packet access except through the cursor inside a callback, capacities <= 8192)",
                        "what each native operation must do is decided by C03-C14; this check decides that the table does the same"]
    msg = build_cdrive()
    events = []
    scripts = cscript.scripts(vlib.seed(), run.tier)
    if msg:
        events.append(json.dumps({"k": "compile", "msg": msg}))
    else:
        native = vlib.drive_groups([json.dumps({"do": "cscript", "lines": s}, separators=(",", ":")) for s in scripts])
        cgroups, _ = run_cdrive(scripts)
        if len(native) != len(scripts) or len(cgroups) != len(scripts):
            raise ToolError("script executions incomplete: %d native, %d C of %d" % (len(native), len(cgroups), len(scripts)))
        owner = []
        for si, (ng, cg) in enumerate(zip(native, cgroups)):
            for k in range(max(len(ng), len(cg))):
                n = ng[k] if k < len(ng) else None
                c = cg[k] if k < len(cg) else None
                if c is not None and c.startswith('{"k":"cdied"'):
                    prev = json.loads(ng[k]) if n else {}
                    events.append(json.dumps({"k": "cdied", "op": prev.get("op", "?")}))
                    owner.append(si)
                    break
                if c is not None and '"op":"abi"' in c:
                    events.append(json.dumps({"k": "abi"}))
                    owner.append(si)
                    break
                if n is None or c is None:
                    events.append(json.dumps({"k": "missing", "op": json.loads(n or c).get("op", "?")}))
                    owner.append(si)
                    break
                if '"op":"pkt"' in n:
                    continue
                events.append('{"k":"pair","c":%s,"native":%s}' % (c, n))
                owner.append(si)
        if not quick(run):
            sub = scripts[:len(histgen.base_packets()) + 3] + scripts[-150:]
            _, vg = run_cdrive(sub, valgrind=True)
            run.cov["valgrind_scripts"] = len(sub)
            if vg:
                events.append(json.dumps({"k": "valgrind", "msg": vg[-400:]}))
                owner.append(0)
    path = os.path.join(run.wd, "cabi.ndjson")
    with open(path, "w") as f:
        for e in events:
            f.write(e + "\n")
    bad, out = vlib.validate(path, "Trace_CAbi", "Trace_CAbi_C15.cfg", run.wd, len(events), {"VIOLATION-C15"})
    facts = collections.Counter()
    for _, ln, txt in vlib.event_prints(out, "FACT"):
        op, ret = txt.split("|")
        facts[op] += 1
        if ret == "-1":
            facts[op + ":failed"] += 1
    run.cov["evaluations"] += len(events)
    run.cov["scripts"] = len(scripts)
    run.cov["traces_validated_against_impl"] += len(events) - len(bad)
    run.cov["operations_by_entry_group"] = dict(facts)
    run.cov["distinct_nontrivial"] = sum(v for k, v in facts.items() if k in ("iter", "add", "rename", "raw_packet", "question", "namefromstr"))
    run.cov["rule"] = "paired (C table, native) executions of one scripted operation; non-trivial = the entry takes an out-buffer, a callback or can fail"
    run.cov["samples"] = [vlib.shorten(e, 700) for e in vlib.sample(events, 2)] + [vlib.shorten(" ; ".join(scripts[0]), 500)]
    need = ["iter", "add", "rename", "raw_packet", "question", "namefromstr", "flags", "set_flags", "rcode", "set_rcode", "opcode", "set_opcode"]
    if not bad and not msg and any(facts.get(k, 0) == 0 for k in need):
        raise ToolError("vacuous run: some table entries were never exercised: %s" % {k: facts.get(k, 0) for k in need})
    for ln, (t, why) in sorted(bad.items()):
        e = json.loads(events[ln - 1])
        sc = {"script": scripts[owner[ln - 1]] if ln - 1 < len(owner) else [], "event": e if e.get("k") != "pair" else {"op": e["c"].get("op"), "i": e["c"].get("i")}}
        run.violation("cabi|" + _re.sub(r"\d+", "N", str(why))[:150], why, sc)


# ------------------------------------------------------------------------------------------------
# C16: per-thread error descriptions

def apalache_inductive(module, cinit, indinit, inv):
    """Informational (never decides the exit code): Apalache discharges Init => IndInv and
    IndInv /\\ Next => IndInv' for spec/apalache/<module>.tla; bounded by a timeout."""
    import subprocess
    d = os.path.join(vlib.SPEC, "apalache")
    res = {}
    for name, args in (("base", ["--cinit=" + cinit, "--inv=" + inv, "--length=0"]), ("step", ["--cinit=" + cinit, "--init=" + indinit, "--inv=" + inv, "--length=1"])):
        try:
            out_dir = os.path.join(vlib.WORK, "apalache_" + name)
            r = subprocess.run(["apalache-mc", "check", "--out-dir=" + out_dir] + args + [module + ".tla"], cwd=d, stdout=subprocess.PIPE, stderr=subprocess.STDOUT, text=True, timeout=900)
            res[name] = "holds" if "EXITCODE: OK" in r.stdout else "not established: " + r.stdout[-200:]
        except Exception as ex:     # timeout or tool missing
            res[name] = "not established: %s" % type(ex).__name__
    import shutil
    shutil.rmtree(os.path.join(d, "tmp"), ignore_errors=True)
    return res


@check("C16")
def c16(run):
    run.assumptions += ["every interleaving TLC enumerates for 2 threads x (fail, read, fail, read) (70 schedules; thorough also 3 threads x (fail, read, read): 1 680, and 3 threads x (fail, read, fail, read): 34 650) is replayed by a coordinator that releases one thread step at a time through channels (no timing); failing calls differ per thread and per step so that descriptions are distinguishable; every schedule is also run with all threads failing in the same way (identical descriptions) and mirrored",
                        "table entries are called from Rust threads through fn_table(); the slot is the library's thread-local either way"]
    res, out = run.model("MC_Slots", "MC_Slots.cfg", workers=1)
    scheds = [("2", ["F", "R", "F", "R"], json.loads(r)) for _, r in vlib.prints(out, "REPLAY")]
    run.negative_control("MC_Slots", "MC_Slots_neg.cfg", workers=1)
    if not quick(run):
        res3, out3 = run.model("MC_Slots", "MC_Slots_3.cfg", workers=1)
        scheds += [("3", ["F", "R", "R"], json.loads(r)) for _, r in vlib.prints(out3, "REPLAY")]
        # all 34 650 interleavings of three threads running fail, read, fail, read
        res4, out4 = run.model("MC_Slots", "MC_Slots_3x4.cfg", workers=1, timeout=3600)
        scheds += [("3", ["F", "R", "F", "R"], json.loads(r)) for _, r in vlib.prints(out4, "REPLAY")]
    if not quick(run):
        run.cov["apalache_inductive_invariant"] = apalache_inductive("SlotsInd", "CInit", "IndInit", "IndInv")
    reps = 3 if quick(run) else 2
    scen = []
    for n, prog, order in scheds:
        for _ in range(reps):
            scen.append(json.dumps({"do": "threads", "n": int(n), "program": prog, "order": order}, separators=(",", ":")))
        # the same schedule with threads failing in the same way (identical descriptions on different threads:
        # whose slot a read sees only shows once one of them fails differently), and mirrored
        scen.append(json.dumps({"do": "threads", "n": int(n), "program": prog, "order": order, "kinds": [[0, 1]]}, separators=(",", ":")))
        scen.append(json.dumps({"do": "threads", "n": int(n), "program": prog, "order": order, "kinds": [[0, 1], [1, 0], [0, 2]]}, separators=(",", ":")))
    # thread churn: one thread fails and keeps its handle while many other threads fail, then everybody reads
    for n in (70, 130, 300, 4200):
        order = list(range(1, n + 1)) + list(range(1, n + 1))
        scen.append(json.dumps({"do": "threads", "n": n, "program": ["F", "R"], "order": order}, separators=(",", ":")))
        order = list(range(1, n + 1)) + [1] + list(range(n, 1, -1))
        scen.append(json.dumps({"do": "threads", "n": n, "program": ["F", "R"], "order": order}, separators=(",", ":")))
    # more threads over the life of the process than can be alive at once: thread 1 fails and keeps its handle,
    # n - 1 short-lived threads fail and read one after the other (each is joined before the next starts), thread 1 reads
    for n in (17000,) if quick(run) else (17000, 33000, 66000):
        order = [1] + [t for t in range(2, n + 1) for _ in (0, 1)] + [1]
        scen.append(json.dumps({"do": "threads", "n": n, "program": ["F", "R"], "order": order, "lazy": True}, separators=(",", ":")))
    obs, path = vlib.drive(scen, run.wd, "sched")
    if len(obs) != len(scen):
        raise ToolError("driver returned %d observations for %d scenarios" % (len(obs), len(scen)))
    bad, out2 = vlib.validate(path, "Trace_Slots", "Trace_Slots_C16.cfg", run.wd, len(obs), {"VIOLATION-C16"})
    facts = collections.Counter(txt for _, ln, txt in vlib.event_prints(out2, "FACT"))
    run.cov["evaluations"] += len(obs)
    run.cov["schedules_enumerated_by_tlc"] = len(scheds)
    run.cov["traces_validated_against_impl"] += len(obs) - len(bad)
    run.cov["distinct_nontrivial"] = facts.get("alternating", 0) // (reps + 2)
    run.cov["exhaustive"] = True
    run.cov["rule"] = "one execution per (schedule, repetition); distinct = schedules; non-trivial = the threads' steps alternate at least twice in a row"
    run.cov["samples"] = [vlib.shorten(o, 600) for o in vlib.sample(obs, 2)]
    for ln, (t, why) in sorted(bad.items()):
        run.violation("slots|" + _re.sub(r"'.*?'", "'..'", str(why))[:120], why, json.loads(scen[ln - 1]))


# ------------------------------------------------------------------------------------------------
# C17: purity

def purity_pool():
    """calls chosen to make leakage visible: a packet with more than 32 suffixes followed by one
    that shares its suffixes, equal names at different offsets, rename followed by compress"""
    H = histgen
    q = H.name("q", "ex") + [0, 1, 0, 1]
    many = H.hdr(1, 0x8180, 1, 40, 0, 0) + q
    for i in range(40):
        many += H.rr(H.name("h%02d" % i, "zone%d" % (i % 7), "ex"), 1, i, [10, 0, 0, i])
    share = H.hdr(2, 0x8180, 1, 3, 0, 0) + q + H.rr(H.name("h00", "zone0", "ex"), 1, 1, [1, 1, 1, 1]) + H.rr(H.name("x", "zone1", "ex"), 5, 2, H.name("h01", "zone1", "ex")) + H.rr(H.name("zone0", "ex"), 2, 3, H.name("ns", "zone0", "ex"))
    shifted = H.hdr(3, 0x8180, 1, 3, 0, 0) + H.name("pad" * 10, "ex") + [0, 1, 0, 1] + H.rr(H.name("h00", "zone0", "ex"), 1, 1, [1, 1, 1, 1]) + H.rr(H.name("x", "zone1", "ex"), 5, 2, H.name("h01", "zone1", "ex")) + H.rr(H.name("zone0", "ex"), 2, 3, H.name("ns", "zone0", "ex"))
    comp = H.base_packets()[0]
    bad = comp[:-3]
    # 20 records with pairwise distinct names (40 suffixes: the last ones stay in the highest dictionary slots) and a
    # short packet that repeats only the last of them
    few = H.hdr(6, 0x8180, 1, 20, 0, 0) + q
    for i in range(20):
        few += H.rr(H.name("s%02d" % i, "t%02d" % i), 1, i, [10, 1, 0, i])
    probe = H.hdr(8, 0x8180, 1, 2, 0, 0) + q + H.rr(H.name("s19", "t19"), 1, 1, [1, 1, 1, 1]) + H.rr(H.name("w", "s18", "t18"), 1, 2, [2, 2, 2, 2])
    pool = [
        {"f": "compress", "pkt": many}, {"f": "compress", "pkt": share}, {"f": "compress", "pkt": shifted},
        {"f": "uncompress", "pkt": comp}, {"f": "uncompress", "pkt": H.base_packets()[2]},
        {"f": "parse", "pkt": comp}, {"f": "parse", "pkt": bad},
        {"f": "rename", "pkt": share, "target": H.name("net"), "source": H.name("ex"), "suffix": True},
        {"f": "rename", "pkt": many, "target": H.name("zone0", "ex"), "source": H.name("zone1", "ex"), "suffix": True},
        {"f": "rename_obj", "pkt": comp, "target": H.name("a"), "source": H.name("q", "ex"), "suffix": False},
        {"f": "synth", "pkt": [], "text": "ex. 3 IN SOA n.ex. h.ex. (1 2 3 4 5)"}, {"f": "synth", "pkt": [], "text": "bad text"},
        {"f": "name", "pkt": [], "text_bytes": H.L("www.example.com")}, {"f": "empty", "pkt": []},
        # calls that fail part-way: a rename that overflows on a later name after earlier names were already processed
        {"f": "rename", "pkt": H.hdr(4, 0x8180, 1, 2, 0, 0) + q + H.rr(H.name("h00", "zone0", "ex"), 1, 1, [1, 1, 1, 1]) + H.rr(H.name("a" * 60, "b" * 60, "c" * 60, "d" * 50, "zone0", "ex"), 1, 2, [2, 2, 2, 2]),
         "target": H.name("t" * 40, "zone0", "ex"), "source": H.name("zone0", "ex"), "suffix": True},
        {"f": "rename_obj", "pkt": share, "target": H.name("u" * 63, "u" * 63, "u" * 63, "u" * 50), "source": H.name("ex"), "suffix": True},
        {"f": "synth", "pkt": [], "text": "ex. 3 IN SOA n.ex. " + "x" * 64 + ".ex. (1 2 3 4 5)"},
        # near-identical inputs (equal up to letter case, equal length, one a prefix of the other): a cache keyed too
        # coarsely on an earlier input shows up as a differing result
        {"f": "name", "pkt": [], "text_bytes": H.L("WWW.Example.COM")}, {"f": "name", "pkt": [], "text_bytes": H.L("www.example.org")},
        {"f": "name", "pkt": [], "text_bytes": H.L("www.example.com.")},
        {"f": "synth", "pkt": [], "text": "eXaMpLe.CoM. 5 IN A 1.2.3.4"}, {"f": "synth", "pkt": [], "text": "example.com. 5 IN A 1.2.3.4"},
        {"f": "synth", "pkt": [], "text": "example.com. 5 IN NS EXAMPLE.COM."}, {"f": "synth", "pkt": [], "text": "example.net. 5 IN A 1.2.3.4"},
        {"f": "compress", "pkt": H.hdr(5, 0x8180, 1, 1, 0, 0) + H.name("Q", "EX") + [0, 1, 0, 1] + H.rr(H.name("h00", "ZONE0", "EX"), 1, 1, [1, 1, 1, 1])},
        {"f": "parse", "pkt": H.base_packets()[4]}, {"f": "uncompress", "pkt": H.base_packets()[4]},
        # 27..30: set-up / light filler / probes of the long-run histories (see long_run_histories)
        {"f": "compress", "pkt": few}, {"f": "compress", "pkt": H.hdr(7, 0x8180, 1, 0, 0, 0) + q},
        {"f": "compress", "pkt": probe}, {"f": "rename", "pkt": probe, "target": H.name("net"), "source": H.name("org"), "suffix": True},
        # 31..: a large and a small input for every kind of builder and converter (a scratch buffer that is not reset
        # shows when a small input follows a large one of the same kind)
        {"f": "synth", "pkt": [], "text": 'big. 1 IN TXT "' + "t" * 700 + '"'}, {"f": "synth", "pkt": [], "text": 'zz. 1 IN TXT "hi"'},
        {"f": "synth", "pkt": [], "text": "q.ex. 9 IN MX 5 m.ex."}, {"f": "synth", "pkt": [], "text": "ex. 60 IN DS 12345 8 2 " + "ab" * 300},
        {"f": "synth", "pkt": [], "text": "ex. 60 IN DS 1 8 2 abcd"},
        {"f": "synth", "pkt": [], "text": "ex. 3 IN SOA " + ".".join(["n" * 60] * 4) + ". " + ".".join(["h" * 60] * 4) + ". (1 2 3 4 5)"},
        {"f": "name", "pkt": [], "text_bytes": H.L(".".join(["w" * 62] * 4)[:250])}, {"f": "name", "pkt": [], "text_bytes": H.L("a")},
    ]
    for i, c in enumerate(pool):
        c["x"] = i
    return pool


def long_run_histories(pool):
    """state that only shows after many calls (a counter that wraps, a table that fills up): a set-up call, then
    W - 1 + d light calls of one kind, then probes that share names with the set-up, for W = 2^8 and 2^16"""
    setup, light, probe_c, probe_r = pool[27], pool[28], pool[29], pool[30]
    out = []
    for w in (256, 65536):
        for d in (-2, -1, 0, 1):
            for filler in (light, pool[3], pool[13]):          # compress / uncompress / name conversion as the light call
                calls = [setup, dict(filler, rep=w - 1 + d), probe_c, probe_r]
                out.append(json.dumps({"do": "purity", "threads": 1, "calls": calls}, separators=(",", ":")))
    return out


@check("C17")
def c17(run):
    run.assumptions += ["histories: every ordered pair (thorough: triple) of calls from a pool of 39 (a large and a small input for every kind of call), long-run histories (a set-up call, 2^8 and 2^16 -2..+1 light calls, probes sharing names with the set-up), enumerated by TLC and executed back to back on one thread of one process, then the pool executed concurrently on 2, 4 and 8 threads in rotated orders, repeated; outputs are logged in full and TLC keeps a memo across the whole trace",
                        "for parse the 'output' is the bytes plus every public field of the parsed object; for ParsedPacket::empty() and synth::gen::query() the two id bytes are not compared"]
    pool = purity_pool()
    seqs = [json.loads(x) for x in gen_tla(run, "Gen_Hist", "Gen_Hist_purity%d.cfg" % (2 if quick(run) else 3))]
    scen = []
    for s in seqs:
        scen.append(json.dumps({"do": "purity", "threads": 1, "calls": [pool[int(c[1:])] for c in s]}, separators=(",", ":")))
    scen += long_run_histories(pool)
    for n in (2, 4, 8):
        for rep in range(5 if quick(run) else 50):
            scen.append(json.dumps({"do": "purity", "threads": n, "reps": 3, "calls": pool}, separators=(",", ":")))
    # the sequential histories run in ONE driver process, so state kept in statics or thread-locals would carry over
    obs, path = vlib.drive(scen, run.wd, "purity", watchdog=120)
    if len(obs) != len(scen):
        raise ToolError("driver returned %d observations for %d scenarios" % (len(obs), len(scen)))
    bad, out = vlib.validate_seq(path, "Purity", "Trace_Purity.cfg", run.wd, len(obs), "VIOLATION-C17")
    st = vlib.tlc_stats(out)
    run.cov["states"] = st["distinct"]
    run.cov["transitions"] = st["generated"]
    run.cov["evaluations"] += sum(o.count('"f":') for o in obs)
    run.cov["histories"] = len(scen)
    run.cov["histories_enumerated_by_tlc"] = len(seqs)
    run.cov["traces_validated_against_impl"] += len(obs) - len(bad)
    run.cov["distinct_nontrivial"] = sum(1 for s in seqs if len(s) >= 2) + (len(scen) - len(seqs))
    run.cov["rule"] = "histories; non-trivial = at least two calls back to back, or concurrent execution"
    run.cov["samples"] = [vlib.shorten(o, 500) for o in vlib.sample(obs, 2)]
    for ln, (t, why) in sorted(bad.items()):
        sc = json.loads(scen[ln - 1])
        if sc["threads"] == 1 and ln >= 2:
            prev = json.loads(scen[ln - 2])
            if prev["threads"] == 1:
                # results may depend on what the same driver thread processed just before
                sc = dict(sc, calls=prev["calls"] + sc["calls"])
        run.violation("purity|" + _re.sub(r"\d+", "N", str(why))[:120], why, sc)


# ------------------------------------------------------------------------------------------------
# selftest: negative controls of the binding (DESIGN.md 3.6)

def selftest():
    """For every trace specification: validate a small known-good trace (must be accepted), then
    corrupt one recorded field of one event and require TLC to reject exactly that event."""
    import cscript
    import copy
    import synthgen
    vlib.build_harness()
    wd = vlib.workdir("selftest")
    H = histgen
    base = H.base_packets()
    pkts = ['{"pkt":%s}' % json.dumps(b, separators=(",", ":")) for b in base]
    failures = []

    def case(name, module, cfg, tag, events, target, mutate, seq=False):
        good = os.path.join(wd, name + "_good.ndjson")
        with open(good, "w") as f:
            f.write("\n".join(events) + "\n")
        val = (lambda p: vlib.validate_seq(p, module, cfg, wd, len(events), tag)) if seq else (lambda p: vlib.validate(p, module, cfg, wd, len(events), {tag}, shards=1))
        bad, _ = val(good)
        if bad:
            failures.append("%s: the unmodified trace is rejected at %s" % (name, sorted(bad)[:3]))
            return
        e = json.loads(events[target])
        mutate(e)
        ev2 = list(events)
        ev2[target] = json.dumps(e, separators=(",", ":"))
        badp = os.path.join(wd, name + "_bad.ndjson")
        with open(badp, "w") as f:
            f.write("\n".join(ev2) + "\n")
        bad, _ = val(badp)
        if (not seq and set(bad) != {target + 1}) or (seq and not bad):
            failures.append("%s: corrupted event %d, TLC rejected %s" % (name, target + 1, sorted(bad)))
        else:
            log("[selftest] %-28s corrupted event rejected: %s" % (name, vlib.shorten(str(list(bad.values())[0][1]), 90)))

    def setf(path, fn):
        def m(e):
            x = e
            for k in path[:-1]:
                x = x[k]
            x[path[-1]] = fn(x[path[-1]])
        return m

    obs, _ = vlib.drive(vlib.with_do(pkts, "parse"), wd, "st_parse")
    case("C01 bytes changed", "Trace_Parse", "Trace_Parse_C01.cfg", "VIOLATION-C01", obs, 2, setf(["same"], lambda v: False))
    case("C02 verdict", "Trace_Parse", "Trace_Parse_C02.cfg", "VIOLATION-C02", obs, 3, setf(["res"], lambda v: "err"))
    case("C18 steps", "Trace_Parse", "Trace_Parse_C18.cfg", "VIOLATION-C18", obs, 1, setf(["steps"], lambda v: 100000))
    obs, _ = vlib.drive(vlib.with_do(pkts, "read"), wd, "st_read")
    case("C03 ttl accessor", "Trace_Read", "Trace_Read_C03.cfg", "VIOLATION-C03", obs, 0, setf(["an", 0, "ttl", 3], lambda v: (v + 1) % 256))
    case("C03 missing yield", "Trace_Read", "Trace_Read_C03.cfg", "VIOLATION-C03", obs, 1, setf(["ar"], lambda v: v[:-1]))
    case("C04 flag bit", "Trace_Read", "Trace_Read_C04.cfg", "VIOLATION-C04", obs, 2, setf(["sum", "flo"], lambda v: v ^ 0x20))
    case("C04 edns offset", "Trace_Read", "Trace_Read_C04.cfg", "VIOLATION-C04", obs, 0, setf(["view", "oedns"], lambda v: [v[0] + 1]))
    obs, _ = vlib.drive(vlib.with_do(pkts, "uncompress", '"all_offsets":true,'), wd, "st_unc")
    case("C05 output byte", "Trace_Transform", "Trace_Transform_C05.cfg", "VIOLATION-C05", obs, 0, setf(["out", "b", 13], lambda v: v ^ 1))
    case("C05 carried offset", "Trace_Transform", "Trace_Transform_C05.cfg", "VIOLATION-C05", obs, 2, setf(["carry"], lambda v: [dict(c, new=c["new"] + (1 if c["k"] == "ok" and c["ref"] > 12 else 0)) for c in v]))
    obs, _ = vlib.drive(vlib.with_do([pkts[1], pkts[5], pkts[6]], "compress"), wd, "st_comp")
    case("C06 output name byte", "Trace_Transform", "Trace_Transform_C06.cfg", "VIOLATION-C06", obs, 0, setf(["out", "b", 13], lambda v: 120))
    obs, _ = vlib.drive([json.dumps({"do": "rename", "pkt": b, "target": H.name("net"), "source": H.name("ex"), "suffix": True}) for b in base[:4]], wd, "st_ren")
    case("C07 renamed name byte", "Trace_Transform", "Trace_Transform_C07.cfg", "VIOLATION-C07", obs, 1, setf(["out", "b", 15], lambda v: 122))
    hs = [json.dumps({"do": "hdr", "w": w, "tid": 7, "xfl": 0x8000, "fa": [[0x20, 0], [0xffff, 0xffff]], "rv": [3, 255], "ov": [5], "tv": [9]}) for w in (0, 0x8180, 0x7805)]
    obs, _ = vlib.drive(hs, wd, "st_hdr")
    case("C12 resulting word", "Trace_Header", "Trace_Header_C12.cfg", "VIOLATION-C12", obs, 2, setf(["flags", 0, 2], lambda v: v ^ 0x0800))
    ns = [json.dumps({"do": "nametext", "text": H.L(t), "zone": z}) for t in ("a.b", "www.Example.com.", "x") for z in ([], H.name("z"))]
    obs, _ = vlib.drive(ns, wd, "st_names")
    case("C14 wire byte", "Trace_Names", "Trace_Names_C14.cfg", "VIOLATION-C14", obs, 0, setf(["wire", 1], lambda v: 98))
    case("C14 read-back", "Trace_Names", "Trace_Names_C14.cfg", "VIOLATION-C14", obs, 2, setf(["rb"], lambda v: v[:-1]))
    ss = dedupe(synthgen.scenarios(1, "quick"))[:12]
    obs, _ = vlib.drive(ss, wd, "st_synth")
    case("C13 wire byte", "Trace_Synth", "Trace_Synth_C13.cfg", "VIOLATION-C13", obs, 3, setf(["wire"], lambda v: v[:-1] + [(v[-1] + 1) % 256]))
    arb = [json.dumps({"do": "synth", "text": list(t.encode()), "expect": "any", "rec": synthgen.EMPTY_REC}) for t in ("ex. 60 IN MX 10 mx.ex.", "ex. 60 IN MX 65536 mx.ex.", "h.ex.  7 in a 1.2.3.4 ")]
    obs2, _ = vlib.drive(arb, wd, "st_synth2")
    case("C13 grammar: valid text rejected", "Trace_Synth", "Trace_Synth_C13.cfg", "VIOLATION-C13", obs2, 0, setf(["res"], lambda v: "err"))
    case("C13 grammar: excluded text accepted", "Trace_Synth", "Trace_Synth_C13.cfg", "VIOLATION-C13", obs2, 1, setf(["res"], lambda v: "ok"))
    case("C13 grammar: denoted record", "Trace_Synth", "Trace_Synth_C13.cfg", "VIOLATION-C13", obs2, 2, setf(["wire"], lambda v: v[:-1] + [(v[-1] + 1) % 256]))
    hist = [H.scen(base[0], [{"op": "read_question"}, H.cursor_op("AN", False, 0, [("set_raw_name", H.name("xYz", "fr")), ("next", [])]), H.op_insert("NS", 1), H.op_insert("AN", 8)])]
    groups = vlib.drive_groups(hist)
    ev = [l for g in groups for l in g]
    case("C08 view offset", "Trace_History", "Trace_History.cfg", "VIOLATION-HIST", ev, 2, setf(["view", "oar"], lambda v: [v[0] + 2]))
    case("C08 stale cache", "Trace_History", "Trace_History.cfg", "VIOLATION-HIST", ev, 2, setf(["view", "cached"], lambda v: [{"raw0": [1, 120, 0], "type": 1, "class": 1}]))
    case("C09 effect", "Trace_History", "Trace_History.cfg", "VIOLATION-HIST", ev, 2, setf(["o", "rec", "r", "ttl"], lambda v: [0, 0, 0, 78]))
    case("C10 failed op changed", "Trace_History", "Trace_History.cfg", "VIOLATION-HIST", ev, 3, setf(["post", 1], lambda v: v ^ 1))
    # C13 on a nearly full packet: the record fits exactly; a recorded refusal must be rejected
    tih = [h for h in H.text_insert_histories() if len(json.loads(h)["pkt"]) > 8000][4:5]
    ev13 = [l for g in vlib.drive_groups(tih) for l in g]

    def refuse(e):
        e["res"], e["e"], e["post"] = "err", "Packet too large", e["pre"]
    case("C13 fitting record refused", "Trace_History", "Trace_History.cfg", "VIOLATION-HIST", ev13, 0, refuse)
    case("transcription: bytes", "Trace_ObjectImpl", "Trace_ObjectImpl.cfg", "NOTE-IMPL", ev, 1, setf(["subs", 0, "bytes", 14], lambda v: v ^ 1))
    case("transcription: offsets", "Trace_ObjectImpl", "Trace_ObjectImpl.cfg", "NOTE-IMPL", ev, 1, setf(["subs", 0, "view", "oar"], lambda v: [v[0] + 1]))
    case("transcription: cursor", "Trace_ObjectImpl", "Trace_ObjectImpl.cfg", "NOTE-IMPL", ev, 1, setf(["subs", 0, "obs", "next"], lambda v: v + 1))
    case("transcription: insert", "Trace_ObjectImpl", "Trace_ObjectImpl.cfg", "NOTE-IMPL", ev, 2, setf(["post", 30], lambda v: v ^ 1))
    ws = [w for w in H.walks("quick") if '"sec":"AN"' in w][40:46]
    obs, _ = vlib.drive(ws, wd, "st_walk")
    target = next(i for i, o in enumerate(obs) if len(json.loads(o)["ys"]) >= 2)
    case("C11 dropped yield", "Trace_Walk", "Trace_Walk_C11.cfg", "VIOLATION-C11", obs, target, setf(["ys"], lambda v: v[:1]))
    sched = [json.dumps({"do": "threads", "n": 2, "program": ["F", "R", "F", "R"], "order": o}) for o in ([1, 2, 2, 1, 1, 2, 2, 1], [1, 1, 2, 2, 1, 1, 2, 2])]
    obs, _ = vlib.drive(sched, wd, "st_sched")
    def swap(e):
        e["steps"][3]["text"] = e["steps"][1]["text"]
    case("C16 other thread's text", "Trace_Slots", "Trace_Slots_C16.cfg", "VIOLATION-C16", obs, 0, swap)
    pool = purity_pool()
    pur = [json.dumps({"do": "purity", "threads": 1, "calls": [pool[1]]}), json.dumps({"do": "purity", "threads": 1, "calls": [pool[0], pool[1]]})]
    obs, _ = vlib.drive(pur, wd, "st_pur")
    case("C17 differing repeat", "Purity", "Trace_Purity.cfg", "VIOLATION-C17", obs, 1, setf(["calls", 1, "y", "b", 20], lambda v: v ^ 1), seq=True)
    if not build_cdrive():
        scr = cscript.scripts(1, "quick")[:2]
        nat = vlib.drive_groups([json.dumps({"do": "cscript", "lines": s}) for s in scr])
        cg, _ = run_cdrive(scr)
        ev = ['{"k":"pair","c":%s,"native":%s}' % (c, n) for ng, g in zip(nat, cg) for n, c in zip(ng, g) if '"op":"pkt"' not in n]
        case("C15 return value", "Trace_CAbi", "Trace_CAbi_C15.cfg", "VIOLATION-C15", ev, 4, setf(["c", "ret"], lambda v: v - 1))
        case("C15 state after call", "Trace_CAbi", "Trace_CAbi_C15.cfg", "VIOLATION-C15", ev, 6, setf(["c", "state", "bytes", 3], lambda v: v ^ 1))
        case("C15 canary", "Trace_CAbi", "Trace_CAbi_C15.cfg", "VIOLATION-C15", ev, 3, setf(["c", "mem"], lambda v: False))
        def both_views(e):
            for side in ("c", "native"):
                e[side]["state"]["view"]["oan"] = [x + 1 for x in e[side]["state"]["view"]["oan"]] or [13]
        case("C15 both sides incoherent", "Trace_CAbi", "Trace_CAbi_C15.cfg", "VIOLATION-C15", ev, 1, both_views)
    import shutil
    if failures:
        for f in failures:
            print("SELFTEST FAILED: " + f)
        return 2
    shutil.rmtree(wd, ignore_errors=True)
    print("selftest ok")
    return 0


# ------------------------------------------------------------------------------------------------
# --replay: re-run one stored scenario through the driver and TLC

REPLAY_SPECS = {
    "parse": ("Trace_Parse", "Trace_Parse_%s.cfg"), "name": ("Trace_Parse", "Trace_Parse_%s.cfg"), "prims": ("Trace_Parse", "Trace_Parse_%s.cfg"),
    "read": ("Trace_Read", "Trace_Read_%s.cfg"),
    "uncompress": ("Trace_Transform", "Trace_Transform_%s.cfg"), "compress": ("Trace_Transform", "Trace_Transform_%s.cfg"),
    "rename": ("Trace_Transform", "Trace_Transform_%s.cfg"), "rename_menu": ("Trace_Transform", "Trace_Transform_%s.cfg"),
    "hdr": ("Trace_Header", "Trace_Header_%s.cfg"), "decomp": ("Trace_Header", "Trace_Header_%s.cfg"),
    "nametext": ("Trace_Names", "Trace_Names_%s.cfg"), "synth": ("Trace_Synth", "Trace_Synth_%s.cfg"),
    "walk": ("Trace_Walk", "Trace_Walk_%s.cfg"), "threads": ("Trace_Slots", "Trace_Slots_%s.cfg"),
}


def replay(pid, path):
    with open(path) as f:
        rp = json.load(f)
    sc = rp.get("scenario", {})
    run = vlib.Run(pid, "quick")
    print("replaying %s: %s" % (rp.get("signature", "?")[:100], vlib.shorten(rp.get("what", ""), 200)))
    if sc.get("kind") == "design":
        res, _ = vlib.mc(sc["module"], sc["cfg"], run.wd)
        bad = bool(res["violated"])
    elif "script" in sc:          # C15
        if build_cdrive():
            bad = True
        else:
            nat = vlib.drive_groups([json.dumps({"do": "cscript", "lines": sc["script"]})])
            cg, _ = run_cdrive([sc["script"]])
            ev = []
            for n, c in zip(nat[0], cg[0]):
                if c.startswith('{"k":"cdied"'):
                    ev.append(json.dumps({"k": "cdied", "op": "?"}))
                    break
                if '"op":"pkt"' not in n:
                    ev.append('{"k":"pair","c":%s,"native":%s}' % (c, n))
            p = os.path.join(run.wd, "replay.ndjson")
            open(p, "w").write("\n".join(ev) + "\n")
            b, _ = vlib.validate(p, "Trace_CAbi", "Trace_CAbi_C15.cfg", run.wd, len(ev), {"VIOLATION-C15"})
            bad = bool(b)
            for ln, (t, why) in b.items():
                print("  event %d: %s" % (ln, why))
    elif sc.get("do") == "hist":
        events, owner, p = history_events(run, [json.dumps(sc)], "replay")
        b, _ = vlib.validate(p, "Trace_History", "Trace_History.cfg", run.wd, len(events), {"VIOLATION-HIST"}, shards=1)
        mine = {ln: why for ln, (t, why) in b.items() if (is_text_insert(events[ln - 1]) if pid == "C13" else pid in classify(str(why)))}
        bad = bool(mine)
        for ln, why in mine.items():
            print("  step %d: %s" % (ln, why))
    elif sc.get("do") == "purity":
        # baseline: every distinct call alone in a fresh driver process, then the stored history
        obs = []
        seen = set()
        for c in sc.get("calls", []):
            if c["x"] in seen:
                continue
            seen.add(c["x"])
            o1, _ = vlib.drive([json.dumps({"do": "purity", "threads": 1, "calls": [c]})], run.wd, "replay_base")
            obs += o1
        o2, _ = vlib.drive([json.dumps(sc)], run.wd, "replay_hist")
        obs += o2
        p = os.path.join(run.wd, "replay.ndjson")
        open(p, "w").write("\n".join(obs) + "\n")
        b, _ = vlib.validate_seq(p, "Purity", "Trace_Purity.cfg", run.wd, len(obs), "VIOLATION-C17")
        bad = bool(b)
        for ln, (t, why) in b.items():
            print("  %s" % why)
    elif sc.get("do") in REPLAY_SPECS:
        mod, cfg = REPLAY_SPECS[sc["do"]]
        obs, p = vlib.drive([json.dumps(sc)], run.wd, "replay")
        obs = [o for o in obs if not o.startswith('{"k":"skip"')]
        open(p, "w").write("\n".join(obs) + "\n")
        cfgname = cfg % ("C03" if pid == "C03" else pid)
        b, _ = vlib.validate(p, mod, cfgname, run.wd, len(obs), {"VIOLATION-" + pid}, shards=1)
        bad = bool(b)
        for ln, (t, why) in b.items():
            print("  %s" % why)
    else:
        print("this replay file holds no executable scenario")
        return 2
    if bad:
        print("VIOLATION property=%s replay=%s" % (pid, path))
        return 1
    print("the scenario no longer violates %s" % pid)
    import shutil
    shutil.rmtree(run.wd, ignore_errors=True)
    return 0
