"""Per-property checks.  Each function fills a vlib.Run."""
import collections
import hashlib
import json
import os

import vlib
from vlib import ToolError, log

SEEDS = os.path.join(vlib.SPEC, "seeds.ndjson")
CHECKS = {}


def check(pid):
    def deco(f):
        CHECKS[pid] = f
        return f
    return deco


def quick(run):
    return run.tier == "quick"


def dedupe(lines):
    seen = set()
    out = []
    for l in lines:
        h = hashlib.sha1(l.encode()).digest()
        if h in seen:
            continue
        seen.add(h)
        out.append(l)
    return out


def seed_packets():
    with open(SEEDS) as f:
        return ['{"pkt":%s}' % json.dumps(json.loads(l)["pkt"], separators=(",", ":")) for l in f if l.strip()]


# ------------------------------------------------------------------------------------------------
# C01 / C02 / C18: one parser call per input

def parser_models(run, negs):
    """M: the parser machine (spec/Parser.tla) against the declarative policy (spec/Wire.tla):
    every byte string over a small alphabet at scaled limits, every stand-alone name check on every
    buffer and offset, and token-level packets at the real limits."""
    t = "" if quick(run) else "_thorough"
    run.model("MC_Parser", "MC_Parser_names%s.cfg" % t)
    run.model("MC_Parser", "MC_Parser_bytes%s.cfg" % t)
    run.model("MC_Parser", "MC_Parser_tokens.cfg")
    for n in negs:
        run.negative_control("MC_Parser", "MC_Parser_neg_%s.cfg" % n)


def parser_inputs(run, n_struct, n_random, n_havoc, n_adv, big=True):
    sd = vlib.seed()
    pk = []
    pk += vlib.vdrive_gen("structured", sd, n_struct)
    pk += vlib.vdrive_gen("honest", sd + 1, n_struct // 4)
    pk += vlib.vdrive_gen("random", sd + 2, n_random)
    pk += vlib.vdrive_gen("havoc", sd + 3, n_havoc) if False else _havoc(sd + 3, n_havoc)
    pk += _truncs(40)
    pk += vlib.vdrive_gen("boundary", 0, 0)
    if big:
        pk += vlib.vdrive_gen("big", 0, 0)
    pk += vlib.vdrive_gen("adversarial", sd + 4, n_adv)
    pk += seed_packets()
    return dedupe(pk)


def _gen_with_seeds(fam, sd, n):
    import subprocess
    r = subprocess.run([vlib.VDRIVE, "gen", fam, str(sd), str(n), SEEDS], stdout=subprocess.PIPE, stderr=subprocess.PIPE, text=True)
    if r.returncode != 0:
        raise ToolError("vdrive gen %s failed: %s" % (fam, r.stderr[-300:]))
    return [l for l in r.stdout.splitlines() if l]


def _havoc(sd, n):
    return _gen_with_seeds("havoc", sd, n)


def _truncs(n):
    return _gen_with_seeds("truncs", 0, n)


def run_parse(run, inv, tags, sizes, big_logged=40, log_bytes=True):
    pk = parser_inputs(run, *sizes)
    if not log_bytes:
        big_logged = 0
    # TLC needs ~0.3 s for a 65 kB byte string: only the first few very large inputs keep their bytes
    # in the log (C01 and C18 do not need them), all inputs below 4 kB always do
    scen = []
    nbig = 0
    for l in pk:
        if len(l) > 16000 or not log_bytes:
            nbig += 1
            if nbig > big_logged:
                scen.append('{"do":"parse","nolog":true,' + l[1:])
                continue
        scen.append('{"do":"parse",' + l[1:])
    obs, path = vlib.drive(scen, run.wd, "parse")
    if len(obs) != len(scen):
        raise ToolError("driver returned %d observations for %d scenarios" % (len(obs), len(scen)))
    bad, out = vlib.validate(path, "Trace_Parse", "Trace_Parse_%s.cfg" % inv, run.wd, len(obs), tags)
    return pk, scen, obs, bad, out


def _sizes(run):
    # structured, random, havoc, adversarial scale
    return (20000, 3000, 6000, 30) if quick(run) else (400000, 40000, 120000, 300)


@check("C02")
def c02(run):
    run.assumptions += [
        "the reading of the policy is spec/Wire.tla (WhyNot); it was written from the property statement and the anchors and is compared with the code in both directions",
        "inputs: structured generator with lies, random bytes, havoc of the repository's test/corpus packets, every truncation prefix of 40 seeds, boundary families on both sides of 63/64, 255/256, 16/17, big packets",
    ]
    parser_models(run, ["optdup", "barrier"] + ([] if quick(run) else ["refs"]))
    pk, scen, obs, bad, out = run_parse(run, "C02", {"VIOLATION-C02"}, _sizes(run))
    clauses = collections.Counter()
    for tag, rest in vlib.prints(out, "CLAUSE"):
        clauses[json.loads(rest.split(", ", 1)[1])] += 1
    accepted = clauses.get("", 0)
    run.cov["evaluations"] += len(obs)
    run.cov["traces_validated_against_impl"] += len(obs) - len(bad)
    run.cov["distinct_nontrivial"] += sum(v for k, v in clauses.items() if k not in ("header-truncated", "question-count"))
    run.cov["rule"] = "distinct byte strings (deduplicated by hash) that get past the header checks: accepted, or rejected by a clause about the question, a record, a name, OPT or trailing bytes"
    run.cov["clauses"] = dict(clauses)
    run.cov["accepted"] = accepted
    run.cov["samples"] = [vlib.shorten(o, 300) for o in vlib.sample(obs, 3)]
    need = ["", "header-truncated", "question-count", "question-truncated", "question-class", "query-with-answers",
            "fixed-part-truncated", "rdata-truncated", "name-rdata-shape", "mx-rdata-shape", "soa-rdata-shape",
            "dname-rdata-shape", "a-size", "aaaa-size", "opt-placement", "opt-owner-not-root", "opt-duplicate",
            "options-do-not-tile", "trailing-bytes", "owner:label-too-long", "owner:name-too-long",
            "owner:too-many-pointers", "owner:pointer-not-backward", "owner:pointer-to-root", "owner:bad-char",
            "owner:segment-overrun", "qname:label-too-long", "qname:name-too-long"]
    missing = [c for c in need if clauses.get(c, 0) == 0]
    if missing:
        raise ToolError("vacuous run: no input exercised clause(s) %s" % missing)
    for ln, (tag, why) in sorted(bad.items()):
        o = json.loads(obs[ln - 1])
        sig = "parse|" + (why.split(":")[0] if isinstance(why, str) else "?") + "|" + (why if isinstance(why, str) else "")
        run.violation(sig, why, {"do": "parse", "pkt": o.get("pkt", [])})


def _pkt_of(line):
    return json.loads(line)["pkt"]


@check("C01")
def c01(run):
    import random
    rnd = random.Random(vlib.seed())
    run.assumptions += [
        "a panic, an abort of the driver process and a watchdog timeout (20 s without progress) are the observable forms of 'crash', 'stack overflow', 'out-of-bounds read' and 'hang' in safe Rust; the parser contains no unsafe code",
        "bytes of parse inputs are not needed by this property and are not logged; the verdict itself is C02's business",
    ]
    parser_models(run, ["label", "barrier"] + ([] if quick(run) else ["refs"]))
    st, rn, hv, adv = _sizes(run)
    pk = parser_inputs(run, st * 2, rn * 3, hv * 2, adv * 10)
    scen = ['{"do":"parse","nolog":true,' + l[1:] for l in pk]
    n_parse = len(scen)
    # public name checkers: every offset of a sample of small packets, and offsets beyond
    small = [l for l in pk if len(l) < 700]
    rnd.shuffle(small)
    n_name_pk = 250 if quick(run) else 4000
    for l in small[:n_name_pk]:
        p = _pkt_of(l)
        for off in list(range(0, len(p) + 3)) + [65536, -1]:
            scen.append(json.dumps({"do": "name", "pkt": p, "off": off, "below_max": rnd.choice([0, 1, 7])}, separators=(",", ":")))
    # cursor primitives: sequences of calls with arguments around every boundary
    n_prims = 400 if quick(run) else 6000
    for l in small[n_name_pk:n_name_pk + n_prims] or small[:n_prims]:
        p = _pkt_of(l)
        n = len(p)
        menu = [0, 1, 2, 9, 10, 11, 12, max(n - 11, 0), max(n - 10, 0), max(n - 1, 0), n, n + 1, 65536, 1 << 31, -1, -2]
        ops = []
        for _ in range(rnd.randint(1, 14)):
            code = rnd.choice([0, 0, 1, 1, 1, 2, 2, 3])
            ops.append([code, rnd.choice(menu) if code < 2 else 0])
        scen.append(json.dumps({"do": "prims", "pkt": p, "ops": ops}, separators=(",", ":")))
    obs, path = vlib.drive(scen, run.wd, "c01")
    if len(obs) != len(scen):
        raise ToolError("driver returned %d observations for %d scenarios" % (len(obs), len(scen)))
    bad, out = vlib.validate(path, "Trace_Parse", "Trace_Parse_C01.cfg", run.wd, len(obs), {"VIOLATION-C01"})
    kinds = collections.Counter()
    res = collections.Counter()
    maxlen = 0
    for o in obs:
        k = o[6:o.index('"', 6)]
        kinds[k] += 1
    for o in obs[:n_parse]:
        e = json.loads(o) if len(o) < 400 else None
        if e:
            res[e.get("res", e.get("k"))] += 1
            maxlen = max(maxlen, e.get("len", 0))
    run.cov["evaluations"] += len(obs)
    run.cov["traces_validated_against_impl"] += len(obs) - len(bad)
    run.cov["event_kinds"] = dict(kinds)
    run.cov["parse_results"] = dict(res)
    run.cov["max_input_len"] = max(len(_pkt_of(l)) for l in sorted(pk, key=len)[-3:])
    run.cov["distinct_nontrivial"] += (len(obs) - n_parse) + sum(1 for l in pk if l.count(",") >= 11)
    run.cov["rule"] = "distinct inputs (byte strings deduplicated by hash; name-checker events distinct by (buffer, offset); primitive scripts distinct by construction); non-trivial = at least 12 bytes long or a name/primitive event"
    run.cov["samples"] = [vlib.shorten(o, 300) for o in (vlib.sample(obs[:n_parse], 2) + vlib.sample(obs[n_parse:], 2))]
    if kinds.get("name", 0) == 0 or kinds.get("prims", 0) == 0:
        raise ToolError("vacuous run: no name-checker or primitive events")
    for ln, (tag, why) in sorted(bad.items()):
        sc = json.loads(scen[ln - 1])
        sig = "%s|%s" % (sc.get("do"), why)
        run.violation(sig, why, sc)


@check("C18")
def c18(run):
    run.assumptions += [
        "steps are counted by the cfg(dnssector_verif) hook: one per iteration of the two name-walking loops, one per EDNS option, one per record and question",
        "the bound is (2*(MaxRefs+(MaxName+1)/2)+1)/14 * len + 3*(MaxRefs+(MaxName+1)/2)+2 with the limits of spec/Wire.tla (63/255/16): 289 steps per 14-byte record",
    ]
    parser_models(run, [])
    st, rn, hv, adv = _sizes(run)
    pk = parser_inputs(run, st, rn, hv, 1000 if quick(run) else 4000)
    scen = ['{"do":"parse","nolog":true,' + l[1:] for l in pk]
    obs, path = vlib.drive(scen, run.wd, "c18")
    if len(obs) != len(scen):
        raise ToolError("driver returned %d observations for %d scenarios" % (len(obs), len(scen)))
    bad, out = vlib.validate(path, "Trace_Parse", "Trace_Parse_C18.cfg", run.wd, len(obs), {"VIOLATION-C18"})
    worst = (0.0, None)
    heavy = 0
    tot = 0
    for o in obs:
        e = json.loads(o)
        if e.get("k") != "parse":
            continue
        tot += e["steps"]
        if e["len"] >= 12 and e["steps"] > e["len"]:
            heavy += 1
        ratio = e["steps"] / max(e["len"], 1)
        if e["len"] >= 1000 and ratio > worst[0]:
            worst = (ratio, {"len": e["len"], "steps": e["steps"], "res": e["res"]})
    run.cov["evaluations"] += len(obs)
    run.cov["traces_validated_against_impl"] += len(obs) - len(bad)
    run.cov["distinct_nontrivial"] += heavy
    run.cov["rule"] = "distinct inputs; non-trivial = the parser spent more steps than the input has bytes (pointer following dominates)"
    run.cov["worst_ratio_steps_per_byte_len_ge_1000"] = {"ratio": round(worst[0], 3), "input": worst[1]}
    run.cov["total_steps"] = tot
    run.cov["samples"] = [worst[1]] + [vlib.shorten(o, 200) for o in vlib.sample(obs, 2)]
    if tot == 0:
        raise ToolError("the step counter hook reports nothing: is the harness built with --cfg dnssector_verif?")
    if worst[0] < 15:
        raise ToolError("vacuous run: the adversarial families did not come near the bound (worst ratio %.2f)" % worst[0])
    for ln, (tag, why) in sorted(bad.items()):
        sc = json.loads(scen[ln - 1])
        sc.pop("nolog", None)
        run.violation("parse|steps over the linear bound", why, sc)
