"""Scripts for the C function table (C15).  The same script is executed through the table by
harness/cdrive.c (compiled against the shipped c_hook.h) and natively by `vdrive` (do: cscript).

  PKT <hex packet>
  OP flags | set_flags <u32> | rcode | set_rcode <n> | opcode | set_opcode <n>
  OP question
  OP raw_packet <capacity>
  OP add <Q|AN|NS|AR> <hex of NUL-free record text>
  OP rename <hex target> <hex source> <0|1>
  OP namefromstr <hex text>
  OP iter <AN|NS|AR|EDNS> <n>            followed by n lines
     ACT <record index | *> obs | set_ttl <u32> | set_ip <hex> | set_raw_name <hex> | set_name <hex text> <hex zone | -> | delete | stop
  END

Scripts respect the table's documented preconditions: rr_ip only on A/AAAA (obs does that), set_ip
only with the record's family, no access to the packet other than through the cursor inside a
callback, capacities up to 8192."""
import random

import histgen


def hx(b):
    return "".join("%02x" % x for x in b) if len(b) else "-"


def tx(s):
    return hx(list(s.encode()))


def iter_op(sec, acts):
    lines = ["OP iter %s %d" % (sec, len(acts))]
    for idx, a in acts:
        lines.append("ACT %s %s" % (idx, a))
    return lines


def script(pkt, ops):
    lines = ["PKT " + hx(pkt)]
    for o in ops:
        lines += o if isinstance(o, list) else [o]
    lines.append("END")
    return lines


TEXTS = ["x.a. 5 IN A 1.1.1.1", "ac.d. 77 IN NS ns.ac.d.", "q.ex. 9 IN MX 5 m.ex.", "zz. 1 IN TXT \"hi\"", "ex. 3 IN SOA n.ex. h.ex. (1 2 3 4 5)",
         "y.y. 4 IN AAAA ::2", "bad text", "a. 1 IN A 1.2.3", "ds.ex. 60 IN DS 1 8 2 abc", "h.ex. 99999999999 IN A 1.2.3.4"]
NAMES = [histgen.name("a"), histgen.name("xYz", "fr"), [0], histgen.name("q" * 40, "q" * 40, "q" * 40), [1, 46, 0], [64] + [97] * 64 + [0], [1, 97]]
STRS = ["example.com.", "example.com", "a.pretty.long.example.com", "www.prod", "", ".", "a..b", "x" * 64, "-", "A_b-9.Z", ("y" * 50 + ".") * 5]
ZONE = histgen.name("z", "Zz")


def all_entry_script(pkt, rnd):
    """touches every entry of the table at least once"""
    ops = ["OP flags", "OP rcode", "OP opcode", "OP question", "OP raw_packet 8192",
           iter_op("AN", [("*", "obs")]), iter_op("NS", [("*", "obs")]), iter_op("AR", [("*", "obs")]), iter_op("EDNS", []),
           "OP set_flags %d" % rnd.randrange(1 << 32), "OP set_rcode %d" % rnd.randrange(256), "OP set_opcode %d" % rnd.randrange(256),
           "OP flags", "OP rcode", "OP opcode",
           "OP namefromstr " + tx("a.pretty.long.example.com"),
           iter_op("AN", [("0", "set_ttl 42"), ("0", "set_raw_name " + hx(NAMES[1])), ("0", "obs"), ("1", "set_name %s %s" % (tx("www.prod"), hx(ZONE))), ("1", "obs")]),
           "OP add AN " + tx(TEXTS[0]), "OP add NS " + tx(TEXTS[1]), "OP add AR " + tx(TEXTS[5]), "OP add Q " + tx(TEXTS[0]),
           iter_op("AR", [("*", "obs"), ("0", "delete"), ("0", "delete")]),
           "OP rename %s %s 1" % (hx(histgen.name("net")), hx(histgen.name("ex"))),
           "OP question", "OP raw_packet 8192", "OP raw_packet 0"]
    return script(pkt, ops)


def edge_scripts(pkt):
    """deterministic sweeps of the arguments a random script only meets by luck: every text form for set_name with and
    without a default zone, every capacity around the packet length for raw_packet, record texts longer than 8192
    characters (still legal records), every string for raw_name_from_str, renames in both modes"""
    plen = len(pkt)
    out = []
    ops = []
    for st in STRS + ["www.example.com.", "x."]:
        for z in ("-", hx(ZONE)):
            ops.append(iter_op("AN", [("0", "set_name %s %s" % (tx(st), z)), ("0", "obs")]))
    out.append(script(pkt, ops))
    ops = ["OP raw_packet %d" % c for c in (0, 1, 11, 12, max(plen - 1, 0), plen, plen + 1, 512, 8191, 8192)]
    ops += ["OP namefromstr " + tx(st) for st in STRS + ["www.example.com.", ".".join(["w" * 62] * 4), ".".join(["w" * 62] * 4) + "."]]
    out.append(script(pkt, ops))
    long_txt = 'big. 1 IN TXT "' + "\\065" * 2100 + '"'                 # 8400 characters of text for 2100 bytes of data
    long_ds = "ds.ex. 60 IN DS 1 8 2 " + "ab" * 4300                        # 8600 hex digits
    plain_txt = 'p. 1 IN TXT "' + "t" * 3000 + '"'
    ops = []
    for sec in ("AN", "NS", "AR"):
        for t in (long_txt, long_ds, plain_txt):
            ops += ["OP add %s %s" % (sec, tx(t)), "OP raw_packet 8192"]
    out.append(script(pkt, ops[:8]))
    out.append(script(pkt, ops[8:]))
    # setters through a cursor whose record was just deleted must fail, and must not disturb the calls that follow
    ops = [iter_op("AN", [("0", "delete"), ("0", "set_name %s %s" % (tx("first.example.org"), "-")), ("0", "set_raw_name " + hx(NAMES[1])),
                          ("1", "set_name %s %s" % (tx("second.example.net"), "-")), ("1", "obs")]),
           iter_op("AR", [("0", "set_name %s %s" % (tx("a\\b"), "-")), ("0", "set_name %s %s" % (tx("third.example.net"), hx(ZONE))), ("0", "obs")])]
    out.append(script(pkt, ops))
    ops = []
    for sfx in (0, 1):
        for t in histgen.RENAME_NAMES[:4]:
            ops.append("OP rename %s %s %d" % (hx(t), hx(histgen.name("ex")), sfx))
            ops.append("OP question")
    out.append(script(pkt, ops))
    return out


def random_script(pkt, rnd, n):
    ops = []
    plen = len(pkt)
    for _ in range(n):
        k = rnd.randrange(14)
        if k == 0:
            ops.append("OP set_flags %d" % rnd.choice([0, 0x20, 0xffff, 0xffffffff, rnd.randrange(1 << 32)]))
        elif k == 1:
            ops.append(rnd.choice(["OP set_rcode %d", "OP set_opcode %d"]) % rnd.randrange(256))
        elif k == 2:
            ops.append(rnd.choice(["OP flags", "OP rcode", "OP opcode", "OP question"]))
        elif k == 3:
            ops.append("OP raw_packet %d" % rnd.choice([0, 11, 12, max(plen - 1, 0), plen, plen + 1, 512, 8192]))
        elif k in (4, 5):
            ops.append("OP add %s %s" % (rnd.choice(["Q", "AN", "NS", "AR"]), tx(rnd.choice(TEXTS))))
        elif k == 6:
            ops.append("OP rename %s %s %d" % (hx(rnd.choice(histgen.RENAME_NAMES)), hx(rnd.choice(histgen.RENAME_NAMES[:5])), rnd.randrange(2)))
        elif k == 7:
            ops.append("OP namefromstr " + tx(rnd.choice(STRS)))
        else:
            sec = rnd.choice(["AN", "AN", "NS", "AR", "AR", "EDNS"])
            acts = [("*", "obs")] if rnd.random() < 0.7 else []
            deleted = False      # accessors on a deleted record's cursor are outside the table's preconditions
            for _ in range(rnd.randint(0, 3)):
                idx = rnd.choice(["0", "1", "2", "*"])
                menu = ["delete", "stop"] if deleted else ["set_ttl %d" % rnd.randrange(1 << 32), "set_raw_name " + hx(rnd.choice(NAMES)),
                                                           "set_name %s %s" % (tx(rnd.choice(STRS)), rnd.choice(["-", hx(ZONE)])), "delete", "delete", "stop", "obs"]
                a = rnd.choice(menu)
                deleted = deleted or a == "delete"
                acts.append((idx, a))
            if rnd.random() < 0.5 and not deleted:
                acts.append(("*", "obs"))
            ops.append(iter_op(sec, acts))
    return script(pkt, ops)


def set_ip_script(pkt):
    """set_rr_ip needs the record's address family: base packet 1 has an A record at additional
    index 0 (skipping OPT) and an AAAA record after it"""
    return script(pkt, [iter_op("AR", [("*", "obs"), ("0", "set_ip 09080706"), ("1", "set_ip " + "00" * 15 + "09"), ("*", "obs")]),
                        iter_op("AN", [("*", "obs")]), "OP raw_packet 8192"])


def scripts(seed, tier):
    rnd = random.Random(seed)
    # (base 10, whose question name is written through a pointer into the header, is left out: a hook that sets a header
    # field turns that name into garbage, and the trusted readers then have every right to crash -- the caller's doing)
    bases = histgen.base_packets()[:10] + histgen.behaviour_bases()      # bases 10..12 reach into the header
    out = []
    for b in bases:
        out.append(all_entry_script(b, rnd))
    out.append(set_ip_script(bases[1]))
    for b in bases[:3]:
        out += edge_scripts(b)
    n = 250 if tier == "quick" else 30000
    for _ in range(n):
        out.append(random_script(rnd.choice(bases), rnd, rnd.randint(2, 10)))
    return out
