"""Shared machinery of /verif/bin/check.

Three bindings between the TLA+ specification (/verif/spec) and the code (/repo):
  M  model checking of the design with TLC at small constants        -> mc()
  G  scenarios born in TLA+ (TLC prints REPLAY lines) replayed by the Rust driver -> tlc_emit(), drive()
  V  executions of the real code validated by TLC against the specification -> validate()
"""
import hashlib
import json
import os
import re
import shutil
import subprocess
import sys
import time

ROOT = os.path.dirname(os.path.dirname(os.path.abspath(__file__)))
SPEC = os.path.join(ROOT, "spec")
HARNESS = os.path.join(ROOT, "harness")
WORK = os.path.join(ROOT, "work")
EVID = os.path.join(ROOT, "evidence")
REPLAYS = os.path.join(ROOT, "replays")
VDRIVE = os.environ.get("VERIF_VDRIVE") or os.path.join(HARNESS, "target", "debug", "vdrive")      # VERIF_VDRIVE: dev aid (bin/coverage)
JAR = "/opt/veriftools/tla/tla2tools.jar:/opt/veriftools/tla/CommunityModules-deps.jar"
NCPU = int(os.environ.get("VERIF_WORKERS", "0")) or min(16, os.cpu_count() or 4)


class ToolError(Exception):
    pass


def log(*a):
    print(*a, file=sys.stderr, flush=True)


def seed():
    try:
        return int(os.environ.get("VERIF_SEED", "1"))
    except ValueError:
        return 1


# ------------------------------------------------------------------------------------------------
# building

_built = False


def build_harness():
    """Rebuilds the harness (and with it dnssector from /repo's current working tree, hook cfg on)."""
    global _built
    if _built:
        return
    env = dict(os.environ, CARGO_NET_OFFLINE="true")
    t0 = time.time()
    r = subprocess.run(["cargo", "build", "--offline", "--quiet"], cwd=HARNESS, env=env,
                       stdout=subprocess.PIPE, stderr=subprocess.STDOUT, text=True)
    if r.returncode != 0:
        log(r.stdout[-4000:])
        raise ToolError("harness build failed")
    log("[build] harness up to date (%.1fs)" % (time.time() - t0))
    _built = True


def workdir(name):
    d = os.path.join(WORK, name)
    shutil.rmtree(d, ignore_errors=True)
    os.makedirs(d, exist_ok=True)
    return d


# ------------------------------------------------------------------------------------------------
# TLC

_meta_n = 0
import threading
_meta_lock = threading.Lock()


def _tlc_cmd(module, cfg, metadir, workers, extra, xmx):
    return ["java", "-Xss1g", "-Xmx%s" % xmx, "-XX:+UseParallelGC",
            "-cp", JAR, "tlc2.TLC", "-workers", str(workers), "-config", cfg,
            "-metadir", metadir, "-cleanup", "-noGenerateSpecTE", "-maxSetSize", "20000000"] + extra + [module]


def tlc(module, cfg, wd, workers=None, extra=None, env=None, timeout=1800, xmx="8g", out_path=None):
    """Runs TLC in /verif/spec; returns (exit code, stdout text)."""
    workers = workers or NCPU
    global _meta_n
    with _meta_lock:
        _meta_n += 1
        metadir = os.path.join(wd, "meta_%s_%d_%d" % (os.path.splitext(os.path.basename(cfg))[0], os.getpid(), _meta_n))
    e = dict(os.environ)
    e.pop("JAVA_TOOL_OPTIONS", None)
    if env:
        e.update(env)
    cmd = _tlc_cmd(module, cfg, metadir, workers, extra or [], xmx)
    out_path = out_path or os.path.join(wd, "tlc_%s.out" % os.path.splitext(os.path.basename(cfg))[0])
    t0 = time.time()
    with open(out_path, "w") as fo:
        try:
            r = subprocess.run(cmd, cwd=SPEC, env=e, stdout=fo, stderr=subprocess.STDOUT, timeout=timeout)
            rc = r.returncode
        except subprocess.TimeoutExpired:
            rc = 124
    shutil.rmtree(metadir, ignore_errors=True)
    with open(out_path, errors="replace") as f:
        out = f.read()
    log("[tlc] %s %s rc=%d %.1fs" % (module, os.path.basename(cfg), rc, time.time() - t0))
    return rc, out


RE_STATS = re.compile(r"(\d+) states generated, (\d+) distinct states found")
RE_PRINT = re.compile(r'^"@@')


def tlc_stats(out):
    m = None
    for m in RE_STATS.finditer(out):
        pass
    if not m:
        return None
    return {"generated": int(m.group(1)), "distinct": int(m.group(2))}


def tlc_failed(rc, out):
    """A TLC run that did not complete normally (parse error, evaluation error, timeout)."""
    if rc == 124:
        return "timeout"
    if "Model checking completed" not in out and "Finished computing initial states" not in out and rc != 0:
        return "rc=%d" % rc
    if re.search(r"Error: (?!Invariant|Action property|Temporal)", out) and "Model checking completed" not in out:
        return "evaluation error"
    return None


def tlc_error_text(out):
    i = out.find("Error:")
    return out[i:i + 1500] if i >= 0 else out[-1500:]


def prints(out, tag=None):
    """Lines printed by the specifications with PrintT("@@TAG|..."): TLC prints a string value on one
    line as a quoted literal (tuples get wrapped, which is why everything is a single string).
    Yields (tag, rest)."""
    for line in out.splitlines():
        if not line.startswith('"@@'):
            continue
        try:
            txt = json.loads(line)
        except Exception:
            # TLC's escaping is JSON compatible for what the specs print; be lenient otherwise
            txt = line[1:-1].replace('\\"', '"').replace("\\\\", "\\")
        t, _, rest = txt[2:].partition("|")
        if tag is None or t == tag:
            yield t, rest


def event_prints(out, tag=None):
    """(tag, event line number, text) for lines "@@TAG|<l>|<text>"."""
    for t, rest in prints(out, tag):
        n, _, txt = rest.partition("|")
        if n.isdigit():
            yield t, int(n), txt


def coverage_counts(out):
    """Per-action counts from -coverage 1: {action: (distinct, total)}; last report wins."""
    cov = {}
    for m in re.finditer(r"^<(\w+) line \d+, col \d+ to line \d+, col \d+ of module (\w+)>: (\d+):(\d+)", out, re.M):
        cov[m.group(1)] = (int(m.group(3)), int(m.group(4)))
    return cov


def mc(module, cfg, wd, expect_ok=True, need_actions=(), workers=None, timeout=1800, extra=None, xmx="8g"):
    """Model-checks a design configuration.  Returns stats; raises ToolError on tool failure.
    A violated invariant is returned as stats['violated'] (the caller decides what it means:
    a defect switch that is ON must be violated, the repaired design must not)."""
    rc, out = tlc(module + ".tla", os.path.join(SPEC, cfg), wd, workers=workers,
                  extra=(["-coverage", "1"] if need_actions else []) + (extra or []), timeout=timeout, xmx=xmx)
    st = tlc_stats(out)
    viol = re.findall(r"Error: (Invariant \w+ is violated|Action property \w+ is violated|Temporal properties were violated|Deadlock reached)", out)
    viol += re.findall(r"(The first argument of Assert evaluated to FALSE)", out)
    bad = tlc_failed(rc, out)
    if st is None or (bad and not viol):
        raise ToolError("TLC failed on %s/%s: %s\n%s" % (module, cfg, bad, tlc_error_text(out)))
    cov = coverage_counts(out)
    for a in need_actions:
        if cov.get(a, (0, 0))[1] == 0:
            raise ToolError("vacuous model: action %s of %s/%s was never taken" % (a, module, cfg))
    res = {"module": module, "cfg": cfg, "states": st["distinct"], "transitions": st["generated"],
           "violated": viol, "actions": {k: v[1] for k, v in cov.items()}}
    if expect_ok and viol:
        res["counterexample"] = tlc_error_text(out)
    return res, out


def tlc_emit(module, cfg, wd, tag="REPLAY", workers=1, timeout=900, extra=None, env=None):
    """Runs a generator configuration and returns the JSON payloads it printed with
    PrintT(<<tag, ToJson(x)>>)."""
    rc, out = tlc(module + ".tla", os.path.join(SPEC, cfg), wd, workers=workers, extra=extra, timeout=timeout, env=env)
    bad = tlc_failed(rc, out)
    if bad:
        raise ToolError("generator %s/%s failed: %s\n%s" % (module, cfg, bad, tlc_error_text(out)))
    res = []
    seen = set()
    for _, rest in prints(out, tag):
        s = rest
        if s in seen:
            continue
        seen.add(s)
        res.append(s)
    return res, tlc_stats(out)


def _validate_one(trace_path, module, cfg, wd, n_lines, workers, timeout, tagx):
    rc, out = tlc(module + ".tla", os.path.join(SPEC, cfg), wd, workers=workers,
                  env={"TRACE": trace_path}, timeout=timeout,
                  out_path=os.path.join(wd, "tlc_%s_%s.out" % (os.path.splitext(cfg)[0], tagx)))
    bad = tlc_failed(rc, out)
    st = tlc_stats(out)
    if bad or st is None or "Error:" in out:
        raise ToolError("trace validation %s/%s failed: %s\n%s" % (module, cfg, bad, tlc_error_text(out)))
    if st["distinct"] != 2 * n_lines:  # (l, 0) and (l, 1) for every event
        raise ToolError("trace validation %s/%s examined %d of %d events" % (module, cfg, st["distinct"] // 2, n_lines))
    return out


def validate(trace_path, module, cfg, wd, n_lines, tags, workers=None, timeout=3600, shards=None):
    """Validates the events of an ndjson file against a trace specification.
    Stateless scheme: every line l is an initial state (l, 0) whose only step (l, 0) -> (l, 1)
    evaluates the property of event l and prints <<"VIOLATION-...", l, why>> for a rejected event
    (the step itself stays enabled, so TLC goes on and reports every offending line).
    The file is cut into shards validated by concurrent TLC processes (JSON loading is
    single-threaded).  Returns ({line_number: (tag, why)}, concatenated TLC output with line
    numbers of PrintT tuples translated back to the unsharded file)."""
    if n_lines == 0:
        return {}, ""
    import concurrent.futures
    size = os.path.getsize(trace_path)
    if shards is None:
        shards = 1 if (n_lines < 2000 and size < 4 << 20) else min(4, NCPU // 2 or 1)
    shards = max(1, min(shards, n_lines))
    workers = workers or max(2, NCPU // shards)
    parts = []   # (path, global line numbers of its lines, count)
    if shards == 1:
        parts.append((trace_path, None, n_lines))
    else:
        # round-robin: expensive events (large packets, long scripts) come in runs, so contiguous shards are unbalanced
        with open(trace_path) as f:
            lines = f.readlines()
        for k in range(shards):
            idx = list(range(k, len(lines), shards))
            pth = "%s.shard%d" % (trace_path, k)
            with open(pth, "w") as fo:
                fo.writelines(lines[i] for i in idx)
            parts.append((pth, idx, len(idx)))
    res = {}
    outs = []
    with concurrent.futures.ThreadPoolExecutor(max_workers=len(parts)) as ex:
        futs = [ex.submit(_validate_one, pth, module, cfg, wd, cnt, workers, timeout, "s%d" % i)
                for i, (pth, base, cnt) in enumerate(parts)]
        for (pth, base, cnt), fu in zip(parts, futs):
            out = fu.result()
            fixed = []
            for line in out.splitlines():
                if line.startswith('"@@'):
                    for t, rest in prints(line):
                        n, _, txt = rest.partition("|")
                        if n.isdigit():
                            ln = int(n) if base is None else base[int(n) - 1] + 1
                            fixed.append(json.dumps("@@%s|%d|%s" % (t, ln, txt)))
                            if t in tags:
                                res[ln] = (t, txt)
                        else:
                            fixed.append(line)
                    continue
                fixed.append(line)
            outs.append("\n".join(fixed))
            if pth != trace_path:
                os.unlink(pth)
    return res, "\n".join(outs)


def validate_seq(trace_path, module, cfg, wd, n_lines, tag, timeout=3600):
    """Stateful trace validation: the trace specification consumes the events in order (variable l)
    and carries state from one event to the next.  Accepted iff TLC walked the whole trace (it
    prints "@@END|<n>|..." when the last event was consumed and found n + 1 states)."""
    rc, out = tlc(module + ".tla", os.path.join(SPEC, cfg), wd, workers=1, env={"TRACE": trace_path}, timeout=timeout)
    bad = tlc_failed(rc, out)
    st = tlc_stats(out)
    if bad or st is None or "Error:" in out:
        raise ToolError("trace validation %s/%s failed: %s\n%s" % (module, cfg, bad, tlc_error_text(out)))
    ends = [rest for _, rest in prints(out, "END")]
    if st["distinct"] != n_lines + 1 or not ends or not ends[0].startswith("%d|" % n_lines):
        raise ToolError("trace validation %s/%s consumed %d of %d events" % (module, cfg, st["distinct"] - 1, n_lines))
    res = {}
    for t, ln, txt in event_prints(out, tag):
        res[ln] = (t, txt)
    return res, out


# ------------------------------------------------------------------------------------------------
# driver

def vdrive_gen(family, sd, n):
    r = subprocess.run([VDRIVE, "gen", family, str(sd), str(n)], stdout=subprocess.PIPE, stderr=subprocess.PIPE, text=True)
    if r.returncode != 0:
        raise ToolError("vdrive gen %s failed: %s" % (family, r.stderr[-500:]))
    return [l for l in r.stdout.splitlines() if l]


def with_do(lines, do, extra=""):
    """Turns packet lines {"pkt":[..]...} into scenario lines for an executor."""
    return ['{"do":"%s",%s%s' % (do, extra, l[1:]) for l in lines]


def drive_groups(scenarios, watchdog=20):
    """Feeds scenario lines to `vdrive run`, restarting it after an abort (stack overflow, panic in
    an extern "C" entry, SIGSEGV) or a hang; those are recorded as events, never as tool errors.
    Returns one list of observation lines per scenario (the driver ends each scenario's output
    with a "#" line)."""
    groups = []
    i = 0
    restarts = 0
    while i < len(scenarios):
        chunk = scenarios[i:]
        p = subprocess.run([VDRIVE, "run", str(watchdog), str(i)], input="\n".join(chunk) + "\n",
                           stdout=subprocess.PIPE, stderr=subprocess.PIPE, text=True)
        cur = []
        done = []
        hang = False
        for l in p.stdout.splitlines():
            if l == "#":
                done.append(cur)
                cur = []
            elif l.startswith('{"k":"hang"'):
                hang = True
            elif l:
                cur.append(l)
        groups.extend(done)
        i += len(done)
        if p.returncode == 0 and len(done) == len(chunk):
            break
        if i >= len(scenarios):
            break
        # scenario i killed the driver: keep what it printed and record how it ended
        kind = "hang" if hang else "abort"
        groups.append(cur + [json.dumps({"k": kind, "rc": p.returncode, "scenario": json.loads(scenarios[i])}, separators=(",", ":"))])
        i += 1
        restarts += 1
        if restarts > 200:
            raise ToolError("driver keeps dying")
    return groups


def drive(scenarios, wd, name="obs", watchdog=20):
    """One observation line per scenario (for executors that print exactly one line)."""
    groups = drive_groups(scenarios, watchdog)
    obs = [g[-1] for g in groups if g]
    path = os.path.join(wd, name + ".ndjson")
    with open(path, "w") as f:
        for l in obs:
            f.write(l + "\n")
    return obs, path


# ------------------------------------------------------------------------------------------------
# known findings, replays, evidence

def load_known(pid):
    path = os.path.join(ROOT, "KNOWN_FINDINGS.json")
    if not os.path.exists(path):
        return []
    with open(path) as f:
        d = json.load(f)
    return [k for k in d.get("findings", []) if k.get("property") == pid and k.get("status") == "known"]


def save_replay(pid, payload):
    d = os.path.join(REPLAYS, pid)
    os.makedirs(d, exist_ok=True)
    s = json.dumps(payload, separators=(",", ":"), sort_keys=True)
    h = hashlib.sha1(s.encode()).hexdigest()[:12]
    path = os.path.join(d, h + ".json")
    with open(path, "w") as f:
        f.write(s + "\n")
    return path


def sample(xs, k=3):
    if len(xs) <= k:
        return list(xs)
    step = max(1, len(xs) // k)
    return [xs[j * step] for j in range(k)]


def shorten(obj, maxlen=400):
    s = obj if isinstance(obj, str) else json.dumps(obj, separators=(",", ":"))
    return s if len(s) <= maxlen else s[:maxlen] + "...(%d chars)" % len(s)


class Run:
    """One execution of a check: collects coverage, violations and writes the evidence file."""

    def __init__(self, pid, tier):
        self.pid = pid
        self.tier = tier
        self.t0 = time.time()
        self.cov = {"states": 0, "transitions": 0, "traces_validated_against_impl": 0, "evaluations": 0,
                    "distinct_nontrivial": 0, "samples": [], "models": [], "stages": {}}
        self.assumptions = []
        self.violations = []   # (signature, what, replay payload)
        self.notes = []
        self.wd = workdir("%s_%s" % (pid, tier))

    def add_model(self, res):
        self.cov["states"] += res["states"]
        self.cov["transitions"] += res["transitions"]
        self.cov["models"].append({k: res[k] for k in ("module", "cfg", "states", "transitions", "actions") if k in res})

    def model(self, module, cfg, **kw):
        """Design model that must hold."""
        res, out = mc(module, cfg, self.wd, **kw)
        self.add_model(res)
        if res["violated"]:
            self.violations.append(("design:%s/%s" % (module, cfg),
                                    "the design model %s/%s violates %s" % (module, cfg, res["violated"][0]),
                                    {"kind": "design", "module": module, "cfg": cfg, "counterexample": res.get("counterexample", "")}))
        return res, out

    def negative_control(self, module, cfg, **kw):
        """Design model with a defect switch on: TLC must find the violation, otherwise the
        invariants are too weak to mean anything (tool error, not a property violation)."""
        res, out = mc(module, cfg, self.wd, expect_ok=False, **kw)
        if not res["violated"]:
            raise ToolError("negative control %s/%s was not detected" % (module, cfg))
        self.cov.setdefault("negative_controls", []).append({"module": module, "cfg": cfg, "detected": res["violated"][0]})
        return res

    def violation(self, sig, what, payload):
        self.violations.append((sig, what, payload))

    def finish(self):
        known = load_known(self.pid)
        real = []
        seen_known = {}
        for sig, what, payload in self.violations:
            hit = None
            for k in known:
                if re.search(k["key"], sig):
                    hit = k
                    break
            if hit:
                seen_known.setdefault(hit["key"], (hit, 0))
                seen_known[hit["key"]] = (hit, seen_known[hit["key"]][1] + 1)
            else:
                real.append((sig, what, payload))
        for key, (k, n) in seen_known.items():
            print("KNOWN-FINDING: property=%s %s (%d scenarios)" % (self.pid, k["what"], n))
        ev = {
            "property_id": self.pid, "tier": self.tier, "seed": seed(), "level": "model_checking",
            "coverage": self.cov, "assumptions": self.assumptions, "wall_s": round(time.time() - self.t0, 2),
            "violations": len(real), "known_findings_seen": {k: n for k, (_, n) in seen_known.items()},
            "notes": self.notes,
        }
        if ev["coverage"]["states"] == 0:
            # no design model in this check: fall back to the exploration-style keys
            ev["coverage"].pop("states")
            ev["coverage"].pop("transitions")
        if not ev["coverage"]["samples"]:
            ev["coverage"]["samples"] = ["(no scenario executed)"]
        os.makedirs(EVID, exist_ok=True)
        rc = 0
        if real:
            rc = 1
            # one replay file per distinct signature, at most 20 lines
            done = set()
            first = []
            for sig, what, payload in real:
                if sig in done:
                    continue
                done.add(sig)
                path = save_replay(self.pid, {"property": self.pid, "signature": sig, "what": what, "scenario": payload})
                first.append({"signature": sig, "what": shorten(what, 300), "replay": path})
                if len(done) <= 20:
                    print("VIOLATION property=%s replay=%s" % (self.pid, path))
                    log("  %s: %s" % (sig, shorten(what, 300)))
            ev["violation_details"] = first[:50]
            cnt = {}
            for sig, what, payload in real:
                cnt[sig] = cnt.get(sig, 0) + 1
            ev["violation_signatures"] = dict(sorted(cnt.items(), key=lambda kv: -kv[1])[:200])
        with open(os.path.join(EVID, self.pid + ".json"), "w") as f:
            json.dump(ev, f, indent=1)
        if rc == 0:
            shutil.rmtree(self.wd, ignore_errors=True)
        log("[%s] %s: %d violation(s), %d evaluations, %d model states, %.1fs" % (
            self.pid, self.tier, len(real), self.cov["evaluations"], self.cov.get("states", 0), time.time() - self.t0))
        return rc
